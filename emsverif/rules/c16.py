"""C16 - the geometry cache key depends on the geometry and on nothing else."""
from __future__ import annotations

import ast

from ..callgraph import CallGraph
from ..effects import noncanonical_sources
from ..model import const_value, dotted, kwarg, norm_text, walk_no_nested
from ..report import Context
from .common import calls_in, callee, method_calls

BASE = 'emsarray.conventions._base.Convention'
CACHE = 'emsarray.operations.cache'
FEEDERS = {f"{CACHE}.hash_string": 'hash_string', f"{CACHE}.hash_int": 'hash_int', f"{CACHE}.hash_attributes": 'hash_attributes'}


def feeds_of(ctx, fi, hash_name: str):
    """[(call node, kind, value expr)] for every feed into the hash object in fi, in source order."""
    out = []
    for c in calls_in(fi, nested=True):
        q = callee(ctx, fi, c)
        if q in FEEDERS and c.args and isinstance(c.args[0], ast.Name) and c.args[0].id == hash_name and len(c.args) >= 2:
            out.append((c, FEEDERS[q], c.args[1]))
        elif isinstance(c.func, ast.Attribute) and c.func.attr == 'update' and isinstance(c.func.value, ast.Name) \
                and c.func.value.id == hash_name and c.args:
            out.append((c, 'update', c.args[0]))
    return sorted(out, key=lambda t: (t[0].lineno, t[0].col_offset))


def classify(ctx, fi, expr, name_var: str, array_var: str) -> set[str]:
    """Which categories of a geometry variable an expression reads."""
    flow = ctx.flow(fi)
    cats = set()
    other = set()
    stop = lambda n: isinstance(n, ast.Name) and n.id == array_var  # noqa: E731
    dtype_read = False
    for n, path in flow.expand(expr, stop=stop):
        if isinstance(n, ast.Attribute) and n.attr == 'dtype':
            dtype_read = True
        if isinstance(n, ast.Call) and isinstance(n.func, ast.Attribute) and n.func.attr == 'get' and n.args \
                and const_value(n.args[0], None) == 'dtype':
            dtype_read = True
        if isinstance(n, ast.Attribute) and isinstance(n.value, ast.Name) and n.value.id == array_var:
            if n.attr in ('size',):
                cats.add('size')
            elif n.attr in ('shape',):
                cats.add('shape')
            elif n.attr in ('attrs',):
                cats.add('attrs')
            elif n.attr in ('dtype',):
                cats.add('dtype')
            elif n.attr in ('encoding',):
                cats.add('encoding')
            elif n.attr in ('values', 'to_numpy', 'data'):
                cats.add('values')
            elif n.attr in ('name', 'dims'):
                cats.add(n.attr)
            else:
                other.add(n.attr)
        if isinstance(n, ast.Name) and n.id == name_var and any(d.kind == 'iter' for d in flow.defs_of(n)):
            cats.add('name')
    # `.values.dtype` / encoding.get('dtype', values.dtype) is a dtype read, not a values read
    if dtype_read:
        cats.discard('values')
        cats.discard('encoding')
        cats.add('dtype')
    return cats | {f"other:{o}" for o in other}


def run(ctx: Context) -> None:
    p = ctx.p
    base = p.cls(BASE)
    cg = CallGraph(p)
    ctx.rule('R16.1', "nothing but geometry: hash_geometry reads the dataset only as self.dataset[name] for name in get_all_geometry_names(); make_cache_key adds exactly class module, class name and package version", floor=6)
    ctx.rule('R16.2', "everything of the geometry: per geometry variable the feeds cover name, dtype, size, shape, raw values and attributes, with lengths fed before variable-length bytes", floor=8)
    ctx.rule('R16.3', "the geometry inventory of every convention covers every dataset variable its geometry code reads", floor=5)
    ctx.rule('R16.4', "only canonical bytes reach hash.update: no process-dependent or non-canonical source in the closure of make_cache_key", floor=1)
    ctx.rule('R16.5', "which optional mesh tables enter the inventory is decided from the mesh description alone: the validity tests and the dimension discovery they rest on (declared names first, documented fall-backs) do not depend on unrelated dimensions such as the number of time steps (facts shared with C10 R10.2 / R10.5)", floor=25)
    from . import c10 as _c10
    from .common import share_obligations as _share
    _share(ctx, _c10, {'R10.2', 'R10.5'}, 'R16.5')
    # the inventory of a CF grid starts from the discovered coordinate names: which variable is found has to be a function of the
    # dataset (first match in variable order), not of set iteration order, or the key of one dataset differs between processes
    from . import c11 as _c11
    _share(ctx, _c11, {'R11.3'}, 'R16.5')
    # the key of a dataset must not depend on what was asked of it before: deriving polygons or bounds from the geometry variables works on
    # copies (the blanking of centres without neighbours writes NaN into an array - it must not be the dataset's own)
    ctx.rule('R16.7', "deriving geometry does not write into the geometry variables: the arrays that are blanked while cell bounds are made are fresh copies (fact shared with C06 R06.3)", floor=1)
    from . import c06 as _c06
    _share(ctx, _c06, {'R06.3'}, 'R16.7', only=lambda ob: 'a fresh array' in ob.text)
    from .common import adopt_foundations as _adopt
    _adopt(ctx, 'R16.6', ['topology', 'order'], floor=60)
    ctx.assume("hashlib digests and numpy tobytes('C') are deterministic functions of their input bytes")

    impls = p.implementations(base, 'hash_geometry')
    ctx.require(len(impls) >= 1, "no hash_geometry implementation")
    for fi in impls:
        flow = ctx.flow(fi)
        hname = fi.params[1]
        loops = [n for n in walk_no_nested(fi.node) if isinstance(n, ast.For)]
        ctx.need('R16.1', len(loops) == 1 and isinstance(loops[0].target, ast.Name), "hash_geometry loops once over the geometry names", fi)
        lp = loops[0]
        nv = lp.target.id
        ok_iter = flow.canon(lp.iter) == ('call', ('attr', ('param', 'self'), 'get_all_geometry_names'), (), ())
        ctx.check('R16.1', ok_iter, "the loop runs over self.get_all_geometry_names(), unfiltered and in order", fi, lp,
                  construct=f"for {nv} in {norm_text(flow.resolve(lp.iter))}")
        # dataset reads
        reads = [n for n in ast.walk(fi.node) if isinstance(n, ast.Attribute) and n.attr == 'dataset'
                 and isinstance(n.value, ast.Name) and n.value.id == 'self']
        bad_reads = []
        arr_var = None
        for r in reads:
            parent = None
            for n in ast.walk(fi.node):
                for ch in ast.iter_child_nodes(n):
                    if ch is r:
                        parent = n
            if isinstance(parent, ast.Subscript) and parent.value is r and isinstance(parent.slice, ast.Name) and parent.slice.id == nv:
                for st in walk_no_nested(fi.node):
                    if isinstance(st, ast.Assign) and st.value is parent and isinstance(st.targets[0], ast.Name):
                        arr_var = st.targets[0].id
                continue
            bad_reads.append(parent if parent is not None else r)
        ctx.check('R16.1', not bad_reads and arr_var is not None, "the dataset is read only as self.dataset[<geometry name>]", fi,
                  bad_reads[0] if bad_reads else lp,
                  construct='other dataset reads: ' + (', '.join(sorted({norm_text(b) for b in bad_reads})) if bad_reads else 'none'))
        ctx.need('R16.2', arr_var is not None, "each geometry variable is fetched into a local", fi)
        feeds = feeds_of(ctx, fi, hname)
        in_loop = [f for f in feeds if any(x is f[0] for x in ast.walk(lp))]
        outside = [f for f in feeds if f not in in_loop]
        ctx.check('R16.1', not outside, "nothing outside the per-variable loop is fed to the hash", fi, outside[0][0] if outside else lp,
                  construct='feeds outside the geometry loop: ' + (', '.join(norm_text(f[0]) for f in outside) if outside else 'none'))
        cats_all = {}
        foreign = []
        for call, kind, val in in_loop:
            cats = classify(ctx, fi, val, nv, arr_var)
            cats_all[id(call)] = (call, kind, cats)
            # every feed derives from the loop's name or array only
            stop = lambda n: isinstance(n, ast.Name) and n.id in (arr_var, nv)  # noqa: E731
            self_reads = [n for n, _ in flow.expand(val, stop=stop) if isinstance(n, ast.Name) and n.id in ('self', 'cls')]
            if self_reads or not cats or any(c.startswith('other:') for c in cats) or 'encoding' in cats:
                foreign.append(call)
        ctx.check('R16.1', not foreign, "every feed is derived from the geometry variable or its name", fi, foreign[0] if foreign else lp,
                  construct='feeds from elsewhere: ' + (', '.join(norm_text(f) for f in foreign) if foreign else 'none'))
        have = set()
        for call, kind, cats in cats_all.values():
            have |= cats
        for cat, text in (('name', 'the variable name'), ('dtype', 'the (encoded) dtype'), ('size', 'the element count'),
                          ('shape', 'the shape'), ('values', 'the raw values'), ('attrs', 'the attributes')):
            site = next((c for c, k, cs in cats_all.values() if cat in cs), lp)
            ctx.check('R16.2', cat in have, f"{text} of every geometry variable is fed to the hash", fi, site,
                      construct=f"feed of {cat}: " + (norm_text(site) if cat in have else 'absent'))
        # which type: the type of the values that are hashed, not only the type they had on disk
        dt_feeds = [(c, c.args[-1]) for c, k, cs in cats_all.values() if 'dtype' in cs]
        in_memory_always = False
        normalised = False
        for c, v in dt_feeds:
            nodes = [n for n, _ in flow.expand(v)]
            gets = [n for n in nodes if isinstance(n, ast.Call) and isinstance(n.func, ast.Attribute) and n.func.attr == 'get' and n.args
                    and const_value(n.args[0], None) == 'dtype' and 'encoding' in norm_text(n.func.value)]
            mem = [n for n in nodes if isinstance(n, ast.Attribute) and n.attr == 'dtype' and norm_text(n.value).split('.')[0] == arr_var and not any(any(x is n for x in ast.walk(g)) for g in gets)]
            if mem:
                in_memory_always = True
            for n in nodes:
                if not (isinstance(n, ast.Call) and callee(ctx, fi, n) == 'numpy.dtype' and len(n.args) == 1):
                    continue
                # what is normalised is the encoded type whenever there is one, whichever way it is spelled: the choice between the
                # encoded type and the type of the values may hang on the presence of the entry only, never on what kind of object it is
                from .common import facts as _facts16
                arg = n.args[0]
                alts = [arg]
                if isinstance(arg, ast.Name):
                    ds_ = flow.defs_of(arg)
                    alts = [d.stmt for d in ds_ if d.stmt is not None] if ds_ and all(d.kind == 'assign' for d in ds_) else []
                fine = bool(alts)
                for a_ in alts:
                    for t, pol in _facts16(ctx, fi, a_, expand=False):
                        if 'dtype' not in t and 'encoding' not in t:
                            continue        # conditions about something else (the loop, the variable) are not this rule's business
                        if not (t.endswith(' is None') or "'dtype' in " in t):
                            fine = False
                            how_chosen = t
                if fine and any(g is x for g in gets for x in ast.walk(n)) or (fine and gets and isinstance(arg, ast.Name)):
                    normalised = True
        ctx.check('R16.2', in_memory_always, "the type of the values in memory enters the key on every path: an on-disk type from the encoding may be fed as well but not instead "
                  "(decoded float64 connectivity re-typed with the same bytes, or the same variable with and without its encoding, must not share / split keys)", fi,
                  dt_feeds[0][0] if dt_feeds else lp,
                  construct=f"dtype feed: {norm_text(flow.resolve(dt_feeds[0][1]))[:120] if dt_feeds else 'absent'}; in-memory dtype fed unconditionally: {in_memory_always}")
        ctx.check('R16.2', normalised, "a type taken from the encoding is normalised with numpy.dtype(...) before its name is read (xarray accepts 'float32' and numpy.float32 there)", fi,
                  dt_feeds[0][0] if dt_feeds else lp, construct=f"numpy.dtype(...) on the way to the feed: {normalised}")
        # size and shape are fed before the raw bytes (they delimit them)
        order = [(c.lineno, c.col_offset, cs) for c, k, cs in cats_all.values()]
        order.sort()
        pos = {}
        for i, (_, _, cs) in enumerate(order):
            for c in cs:
                pos.setdefault(c, i)
        ok_order = 'values' in pos and 'size' in pos and 'shape' in pos and pos['size'] < pos['values'] and pos['shape'] < pos['values']
        ctx.check('R16.2', ok_order, "size and shape are fed before the raw bytes, so the byte run is delimited", fi, lp,
                  construct=f"feed order: {[sorted(cs) for _, _, cs in order]}")
        # values are the complete raw bytes in a fixed order
        vals = [(c, v) for c, k, cs in cats_all.values() for v in [c.args[-1]] if 'values' in cs]
        ok_bytes = False
        for c, v in vals:
            r = flow.resolve(v)
            if isinstance(r, ast.Call) and isinstance(r.func, ast.Attribute) and r.func.attr == 'tobytes':
                o = r.args[0] if r.args else kwarg(r, 'order')
                src = flow.resolve(r.func.value)
                whole = (isinstance(src, ast.Call) and isinstance(src.func, ast.Attribute) and src.func.attr == 'to_numpy' and not src.args) or \
                    (isinstance(src, ast.Attribute) and src.attr == 'values')
                ok_bytes = whole and (o is None or const_value(o, None) == 'C')
        ctx.check('R16.2', ok_bytes, "the values are fed as the complete array's bytes in C order", fi, vals[0][0] if vals else lp,
                  construct=f"values feed: {norm_text(vals[0][0]) if vals else 'absent'}")

    # helpers are length prefixed
    hs = ctx.func(f"{CACHE}.hash_string")
    f = feeds_of(ctx, hs, hs.params[0])
    ok = (len(f) == 2 and f[0][1] == 'hash_int' and norm_text(f[0][2]) == f"len({hs.params[1]})" and f[1][1] == 'update'
          and norm_text(f[1][2]).startswith(f"{hs.params[1]}.encode("))
    ctx.check('R16.2', ok, "hash_string feeds the length, then the encoded text", hs, hs.node, construct=f"feeds: {[norm_text(x[0]) for x in f]}")
    ha = ctx.func(f"{CACHE}.hash_attributes")
    f = feeds_of(ctx, ha, ha.params[0])
    flow = ctx.flow(ha)
    upd = [x for x in f if x[1] == 'update']
    ok = False
    if len(upd) == 1:
        lens = [x for x in f if x[1] == 'hash_int' and isinstance(flow.resolve(x[2]), ast.Call) and dotted(flow.resolve(x[2]).func) == 'len'
                and flow.canon(flow.resolve(x[2]).args[0]) == flow.canon(upd[0][2]) and (x[0].lineno, x[0].col_offset) < (upd[0][0].lineno, upd[0][0].col_offset)]
        ok = len(lens) == 1 and flow.reaches(upd[0][2], lambda n: isinstance(n, ast.Name) and n.id == ha.params[1])
    ctx.check('R16.2', ok, "hash_attributes feeds the byte length, then bytes derived from the whole attribute dictionary", ha, ha.node,
              construct=f"feeds: {[norm_text(x[0]) for x in f]}")
    # the whole dictionary: what is serialised is the dictionary that was handed in, not a selection of its entries
    # (an attribute such as _FillValue on a connectivity variable is read by the geometry code)
    rebound = [n for n in ast.walk(ha.node) if isinstance(n, ast.Name) and n.id == ha.params[1] and isinstance(n.ctx, (ast.Store, ast.Del))]
    ser = [c for c in calls_in(ha) if (callee(ctx, ha, c) or '').endswith('.dumps') and c.args]
    whole = not rebound and len(ser) == 1 and flow.canon(ser[0].args[0]) == ('param', ha.params[1])
    ctx.check('R16.2', whole, "every attribute enters the key: the dictionary serialised is the one handed in, unfiltered", ha, rebound[0] if rebound else (ser[0] if ser else ha.node),
              construct=f"serialised: {norm_text(ser[0].args[0]) if ser else '?'}; the parameter is rebound {len(rebound)} time(s)")
    hi = ctx.func(f"{CACHE}.hash_int")
    f = feeds_of(ctx, hi, hi.params[0])
    ok = len(f) == 1 and 'int32' in norm_text(f[0][2]) and norm_text(f[0][2]).endswith('.tobytes()') and hi.params[1] in norm_text(f[0][2])
    raises = [n for n in walk_no_nested(hi.node) if isinstance(n, ast.Raise)]
    ctx.check('R16.2', ok and bool(raises), "hash_int feeds a fixed width integer and refuses values that do not fit", hi, hi.node,
              construct=f"feeds: {[norm_text(x[0]) for x in f]}; raises: {len(raises)}")

    # make_cache_key
    mk = ctx.func(f"{CACHE}.make_cache_key")
    flow = ctx.flow(mk)
    hname = mk.params[1]
    f = feeds_of(ctx, mk, hname)
    from .common import expand_locals as _x16
    texts = [norm_text(_x16(flow, x[2])) for x in f]
    want = [f"{mk.params[0]}.ems.__class__.__module__", f"{mk.params[0]}.ems.__class__.__name__", 'emsarray.__version__']
    alt = [f"type({mk.params[0]}.ems).__module__", f"type({mk.params[0]}.ems).__name__", 'emsarray.__version__']
    ctx.check('R16.1', (sorted(texts) == sorted(want) or sorted(texts) == sorted(alt)) and all(x[1] == 'hash_string' for x in f),
              "besides the geometry, exactly class module, class name and package version are fed", mk, mk.node,
              construct=f"make_cache_key feeds: {texts}")
    hg = [c for c in method_calls(mk, 'hash_geometry')]
    ok = (len(hg) == 1 and norm_text(_x16(flow, hg[0].func.value)) == f"{mk.params[0]}.ems" and len(hg[0].args) == 1
          and isinstance(hg[0].args[0], ast.Name) and hg[0].args[0].id == hname)
    ctx.check('R16.1', ok, "the geometry of this dataset's convention is hashed into the same hash object", mk, hg[0] if hg else mk.node)
    rets = mk.returns()
    ctx.check('R16.1', len(rets) == 1 and norm_text(rets[0].value) == f"{hname}.hexdigest()", "the key is the digest of that hash", mk,
              rets[0] if rets else mk.node)
    other_reads = [n for n in ast.walk(mk.node) if isinstance(n, ast.Attribute) and isinstance(n.value, ast.Name)
                   and n.value.id == mk.params[0] and n.attr != 'ems']
    ctx.check('R16.1', not other_reads, "make_cache_key reads nothing else of the dataset", mk, other_reads[0] if other_reads else mk.node,
              construct='other dataset reads: ' + (', '.join(sorted({norm_text(n) for n in other_reads})) or 'none'))

    # ---- R16.3 inventory completeness
    with ctx.section('R16.3 inventory completeness'):
        from ..handles import inventory_obligations
        inventory_obligations(ctx, 'R16.3')
        from . import infra as _infra163
        _infra163.ugrid_inventory(ctx, 'R16.3')
        _infra163.cf_inventory_bounds(ctx, 'R16.3')

    # ---- R16.4 canonical bytes
    with ctx.section('R16.4 canonical bytes'):
        closure = cg.closure([(mk, None)] + [(fi, fi.cls) for fi in impls], stop=lambda f: not f.qualname.startswith('emsarray.'))
        for g, gcls in closure:
            if not (g.qualname.startswith(CACHE) or g in impls):
                continue
            for node, q, why in noncanonical_sources(g, lambda n, g=g: p.qualify(n, g)):
                ctx.check('R16.4', False, "no non-canonical byte source reaches the hash", g, node,
                          construct=f"{q}", detail=why)
        if not any(o.rule == 'R16.4' for o in ctx.obligations):
            ctx.check('R16.4', True, "no non-canonical byte source reaches the hash", mk, mk.node,
                      construct=f"closure of make_cache_key ({len(closure)} functions): none of the catalogued sources")



# --------------------------------------------------------------------------- checker self-test
from ..variants import V  # noqa: E402

_B = 'src/emsarray/conventions/_base.py'
_C = 'src/emsarray/operations/cache.py'
VARIANTS = [
    V('C16', 'benign-in-memory-dtype-fed-as-well', 'src/emsarray/conventions/_base.py', "            hash_string(hash, dtype.name)\n", "            hash_string(hash, dtype.name)\n            hash_string(hash, data_array.values.dtype.name)\n", None),
    V('C16', 'dtype-name-of-raw-encoding-value', 'src/emsarray/conventions/_base.py', "            dtype = numpy.dtype(data_array.encoding.get('dtype', data_array.values.dtype))", "            dtype = data_array.encoding.get('dtype', data_array.values.dtype)", 'R16.2'),
    V('C16', 'name-feed-deleted', _B, "            hash_string(hash, str(geometry_name))\n", "", 'R16.2'),
    V('C16', 'shape-feed-deleted', _B, "            hash.update(numpy.array(data_array.shape, dtype='int32').tobytes('C'))\n", "", 'R16.2'),
    V('C16', 'attrs-feed-deleted', _B, "            hash_attributes(hash, data_array.attrs)\n", "", 'R16.2'),
    V('C16', 'values-first-element', _B, "            hash.update(data_array.to_numpy().tobytes('C'))", "            hash.update(data_array.to_numpy().ravel()[:1].tobytes('C'))", 'R16.2'),
    V('C16', 'dataset-attrs-hashed', _B, "        geometry_names = self.get_all_geometry_names()\n\n        for", "        geometry_names = self.get_all_geometry_names()\n        hash_attributes(hash, self.dataset.attrs)\n\n        for", 'R16.1'),
    V('C16', 'all-variables-hashed', _B, "        geometry_names = self.get_all_geometry_names()\n", "        geometry_names = list(self.dataset.variables.keys())\n", 'R16.1'),
    V('C16', 'hash-of-name', _B, "            hash_string(hash, str(geometry_name))\n", "            hash_int(hash, hash(str(geometry_name)) % 1000)\n", 'R16.4'),
    V('C16', 'version-dropped', _C, "    hash_string(hash, emsarray.__version__)\n", "", 'R16.1'),
    V('C16', 'string-no-length', _C, "    hash_int(hash, len(value))\n    hash.update(value.encode('utf-8'))", "    hash.update(value.encode('utf-8'))", 'R16.2'),
    V('C16', 'cf-inventory-drops-bounds', 'src/emsarray/conventions/grid.py', "            if bounds_name is not None and bounds_name in self.dataset.variables:\n                names.append(bounds_name)\n", "            pass\n", 'R16.3'),
    V('C16', 'arakawa-inventory-drops-node', 'src/emsarray/conventions/arakawa_c.py', "            self.node.longitude.name,\n            self.node.latitude.name,\n", "", 'R16.3'),
    V('C16', 'ugrid-inventory-drops-node-y', 'src/emsarray/conventions/ugrid.py', "            topology.node_x.name,\n            topology.node_y.name,\n", "            topology.node_x.name,\n", 'R16.3'),
]
