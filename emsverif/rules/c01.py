"""C01 - native and linear indexes form a bijection on every grid."""
from __future__ import annotations

import ast
from typing import Optional

from ..model import AnalysisError, const_value, dotted, kwarg, norm_text, walk_no_nested
from ..report import Context
from ..tuples import TupleEval, Unsupported, is_atom, show, sym
from .common import arg_or_kw, calls_in, callee, enclosing_ifs, enum_members, is_none, peel_sequence

DIMCONV = 'emsarray.conventions._base.DimensionConvention'
WRAP_CALLS = {'abs', 'min', 'max', 'divmod'}
WRAP_ATTRS = {'clip', 'mod', 'remainder', 'fmod', 'absolute', 'minimum', 'maximum'}


def _dims_arity(ctx: Context, ci, fi) -> Optional[int]:
    """Number of dimensions per grid kind as written in grid_dimensions (literal list or cast tuple)."""
    arities = set()
    for node in ast.walk(fi.node):
        vals = []
        if isinstance(node, ast.Dict):
            vals = node.values
        elif isinstance(node, ast.DictComp):
            vals = [node.value]
        elif isinstance(node, ast.Assign) and isinstance(node.targets[0], ast.Subscript):
            vals = [node.value]
        for v in vals:
            while isinstance(v, ast.Call) and (dotted(v.func) or '').rsplit('.', 1)[-1] == 'cast' and len(v.args) == 2:
                t = v.args[0]
                if isinstance(t, ast.Subscript) and (dotted(t.value) or '') == 'tuple' and isinstance(t.slice, ast.Tuple):
                    arities.add(len(t.slice.elts))
                    v = None
                    break
                v = v.args[1]
            if isinstance(v, (ast.List, ast.Tuple)):
                arities.add(len(v.elts))
    if len(arities) == 1:
        return arities.pop()
    return None


def _key_text(ctx, fi, node) -> str:
    d = dotted(node)
    if d is None:
        return norm_text(node)
    return ctx.p.canonical(fi.module.resolve(d))


def keyed_collection(ctx: Context, ci, name: str):
    """Keys (with guards) of grid_kinds / grid_dimensions of class ci.

    Returns (fi_or_None, entries) with entries a list of (key, guard) where key is a
    qualified enum member, ('all-members', enum) or ('keys-of', attr) and guard is a
    canonical condition or None.
    """
    p = ctx.p
    attr = p.resolve_class_attr(ci, name)
    fi = p.resolve_method(ci, name)
    # whichever is defined nearest in the MRO wins
    for c in p.mro(ci):
        if name in c.methods:
            attr = None
            fi = c.methods[name]
            break
        if name in c.attrs:
            fi = None
            attr = (c, c.attrs[name])
            break
    entries = []
    if attr is not None:
        owner, val = attr
        if isinstance(val, ast.Call) and dotted(val.func) == 'frozenset' and len(val.args) == 1:
            d = dotted(val.args[0])
            q = p.canonical(owner.module.resolve(d)) if d else None
            if q and q in p.classes:
                return None, [((('all-members', q)), None)]
        raise AnalysisError(f"{ci.short}.{name}: class attribute form not understood: {norm_text(val)}")
    if fi is None or fi.is_abstract:
        raise AnalysisError(f"{ci.short}.{name} is not defined")
    flow = ctx.flow(fi)

    def guard_of(node) -> Optional[tuple]:
        # what is known to hold where the entry is added: enclosing tests and the guard clauses before it, in one normal form
        from .common import facts as _facts
        fs = _facts(ctx, fi, node)
        if not fs:
            return None
        return tuple(sorted(fs))

    base_names = set()
    for r in fi.returns():
        v = flow.resolve(r.value)
        while isinstance(v, ast.Call) and dotted(v.func) in ('frozenset', 'dict', 'tuple', 'list', 'set') and len(v.args) == 1:
            v = flow.resolve(v.args[0])
        if isinstance(r.value, ast.Name):
            base_names.add(r.value.id)
        if isinstance(r.value, ast.Call) and r.value.args and isinstance(r.value.args[0], ast.Name):
            base_names.add(r.value.args[0].id)
        if isinstance(v, ast.Dict):
            for k in v.keys:
                entries.append((_key_text(ctx, fi, k), guard_of(r) if v is r.value else None))
        elif isinstance(v, (ast.List, ast.Tuple, ast.Set)):
            for k in v.elts:
                entries.append((_key_text(ctx, fi, k), None))
        elif isinstance(v, ast.DictComp) and len(v.generators) == 1:
            it = flow.resolve(v.generators[0].iter)
            if isinstance(it, ast.Call) and isinstance(it.func, ast.Attribute) and it.func.attr == 'items' \
                    and isinstance(v.generators[0].target, ast.Tuple) and isinstance(v.key, ast.Name) \
                    and isinstance(v.generators[0].target.elts[0], ast.Name) \
                    and v.key.id == v.generators[0].target.elts[0].id and not v.generators[0].ifs:
                entries.append((('keys-of', norm_text(it.func.value)), None))
            else:
                raise AnalysisError(f"{fi.short}: dict comprehension form not understood")
        else:
            raise AnalysisError(f"{fi.short}: return form not understood: {norm_text(r.value)}")
    # conditional additions: x[K] = v  /  x.append(K)  on the returned name
    for node in walk_no_nested(fi.node):
        if isinstance(node, ast.Assign) and isinstance(node.targets[0], ast.Subscript) \
                and isinstance(node.targets[0].value, ast.Name) and node.targets[0].value.id in base_names:
            entries.append((_key_text(ctx, fi, node.targets[0].slice), guard_of(node)))
        if isinstance(node, ast.Call) and isinstance(node.func, ast.Attribute) and node.func.attr in ('append', 'add') \
                and isinstance(node.func.value, ast.Name) and node.func.value.id in base_names and node.args:
            entries.append((_key_text(ctx, fi, node.args[0]), guard_of(node)))
    return fi, entries


def expand_entries(ctx, entries):
    out = set()
    for key, guard in entries:
        if isinstance(key, tuple) and key[0] == 'all-members':
            for m in enum_members(ctx, key[1]):
                out.add((f"{key[1]}.{m}", guard))
        else:
            out.add((key, guard))
    return out


def _shape_from_counts(ctx: Context, fi, ret) -> tuple[bool, str]:
    """A mesh's grid_shape written out kind by kind: {kind: (topology.<kind>_count,)}, the edge entry present under the
    condition that also adds the edge kind, and each count being the size of the dimension that grid_dimensions binds to
    that kind.  The dictionary may be a display plus guarded stores, or a comprehension over a table of counts."""
    from .common import expand_locals, facts, symbolic_dict
    flow = ctx.flow(fi)
    entries = symbolic_dict(ctx, fi, ret.value)
    if entries is None:
        return False, norm_text(flow.resolve(ret.value))[:160]
    topo = ctx.p.cls('emsarray.conventions.ugrid.Mesh2DTopology')
    gd = ctx.p.functions.get(f"{fi.cls.qualname}.grid_dimensions")
    if gd is None or topo is None:
        return False, 'no grid_dimensions beside this grid_shape'
    dims = symbolic_dict(ctx, gd, gd.returns()[0].value) if gd.returns() else None
    if dims is None:
        return False, 'grid_dimensions is not a dictionary built from literals'
    dmap = {k: (v, c) for k, v, c in dims}
    seen = []
    for key, val, cond in sorted(entries, key=lambda x: x[0]):
        kind = key.rpartition('.')[2]
        try:
            val = expand_locals(flow, val)
        except Exception:
            pass
        elts = val.elts if isinstance(val, (ast.Tuple, ast.List)) else None
        if not elts or len(elts) != 1 or norm_text(elts[0]) != f"self.topology.{kind}_count":
            return False, f"{key}: {norm_text(val)}"
        count = topo.methods.get(f"{kind}_count")
        first = sorted(count.returns(), key=lambda r: r.lineno)[0] if count is not None and count.returns() else None
        from .common import spell_out as _spell01
        if first is None or norm_text(_spell01(count, ctx.flow(count).resolve(first.value))) != f"self.dataset.sizes[self.{kind}_dimension]":
            return False, f"{kind}_count is not the size of {kind}_dimension"
        if key not in dmap:
            return False, f"grid_dimensions has no entry {key}"
        dval, dcond = dmap[key]
        try:
            dval = expand_locals(ctx.flow(gd), dval)
        except Exception:
            pass
        delts = dval.elts if isinstance(dval, (ast.Tuple, ast.List)) else None
        if not delts or len(delts) != 1 or norm_text(delts[0]) != f"self.topology.{kind}_dimension":
            return False, f"grid_dimensions does not bind {key} to topology.{kind}_dimension"
        if set(cond) != set(dcond):
            return False, f"{key} is listed under {sorted(cond)}, its dimension under {sorted(dcond)}"
        seen.append(kind)
    if set(k for k, _, _ in entries) != set(dmap):
        return False, f"kinds {sorted(k for k, _, _ in entries)} against grid_dimensions {sorted(dmap)}"
    return len(seen) >= 2, f"{{kind: (topology.<kind>_count,)}} for {seen}, each count the size of that kind's dimension, same conditions as grid_dimensions"


def run(ctx: Context) -> None:
    p = ctx.p
    base = p.cls(DIMCONV)
    ctx.rule('R01.1', "pack_index and unpack_index are mutually inverse on symbolic indexes of the convention's arity", floor=6)
    ctx.rule('R01.2', "ravel_index and wind_index pass the same grid_shape[kind] (same kind value) to numpy; grid_shape lists dataset.sizes over grid_dimensions[kind] in order; grid_size is the product of that shape", floor=8)
    ctx.rule('R01.3', "no wrapping or clamping: numpy calls use mode='raise' / order='C', results pass only through int/tuple/map", floor=4)
    ctx.rule('R01.4', "keys of grid_dimensions equal grid_kinds under the same guards; the default kind is one of them", floor=6)
    ctx.rule('R01.5', "wind_index substitutes the default kind only when the argument is None", floor=1)
    ctx.rule('R01.6', "each grid kind is bound to its own dimensions", floor=4)
    ctx.rule('R01.7', "calls between repository functions in the anchored files pass positional arguments to the parameters of the same name (no swapped latitude/longitude, kind/index ...)", floor=20)
    ctx.rule('R01.8', "the dimensions of each mesh grid kind are discovered from the mesh attributes with the documented precedence (shared with C10 R10.5)", floor=5)
    ctx.rule('R01.9', "a hand built convention uses the names it was given: ArakawaC pairs every grid kind with the coordinate names given for that kind, a CF grid hands a latitude / longitude name to its topology even when only one is given", floor=2)
    ctx.rule('R01.10', "a native index outside the grid is not wrapped by selection either: a negative index is refused before it reaches Dataset.isel (fact shared with C05 R05.1)", floor=1)
    ctx.rule('R01.11', "the deprecated alias unravel_index is wind_index: both of its arguments are passed on, the grid kind to the grid kind", floor=2)
    from . import infra as _infra
    _infra.arakawa_names(ctx, 'R01.9')
    _infra.cf_grid_names(ctx, 'R01.9')
    # grid_dimensions of a CF grid is [y_dimension, x_dimension]: both are read off the coordinate the grid order follows
    _infra.cf_grid_dimensions(ctx, 'R01.2')
    _infra.none_default_discipline(ctx, 'R01.9', ['emsarray.conventions.grid.CFGrid.__init__', 'emsarray.conventions.grid.CFGridTopology.__init__',
                                                  'emsarray.conventions.arakawa_c.ArakawaC.__init__'])
    _infra.passes_parameters_on(ctx, 'R01.11', 'emsarray.conventions._base.Convention.unravel_index', "unravel_index stands for wind_index")
    ctx.assume("numpy.ravel_multi_index / unravel_index with equal shape, order='C', mode='raise' are mutually inverse on [0, prod(shape)) and raise outside it")
    ctx.assume("xarray Dataset.sizes reports the dimension lengths of the file")

    from .common import share_obligations, swapped_argument_obligations
    swapped_argument_obligations(ctx, 'R01.7')
    from . import c10
    share_obligations(ctx, c10, {'R10.5'}, 'R01.8')
    from . import c05
    share_obligations(ctx, c05, {'R05.1'}, 'R01.10', only=lambda ob: 'negative native index' in ob.text)
    concrete = [c for c in p.concrete_classes(base)]
    ctx.require(len(concrete) >= 5, f"expected >= 5 concrete DimensionConvention classes, found {len(concrete)}")

    # ---------------- R01.1
    with ctx.section('R01.1'):
        seen_pairs = set()
        for ci in concrete:
            pack = p.resolve_method(ci, 'pack_index')
            unpack = p.resolve_method(ci, 'unpack_index')
            ctx.require(pack is not None and unpack is not None and not pack.is_abstract and not unpack.is_abstract,
                        f"{ci.short}: pack_index/unpack_index not concrete")
            gd = p.resolve_method(ci, 'grid_dimensions')
            ctx.require(gd is not None and not gd.is_abstract, f"{ci.short}.grid_dimensions not concrete")
            key = (pack.qualname, unpack.qualname, gd.qualname)
            if key in seen_pairs:
                continue
            seen_pairs.add(key)
            arity = _dims_arity(ctx, ci, gd)
            ctx.require(arity is not None, f"{gd.short}: cannot read the number of dimensions per grid kind")
            K = sym('K')
            A = tuple(sym(f"a{i}") for i in range(arity))
            try:
                packed = TupleEval(pack, {pack.params[1]: K, pack.params[2]: A}).run()
                unpacked = TupleEval(unpack, {unpack.params[1]: packed}).run()
            except Unsupported as exc:
                if 'out of range for arity' in str(exc):
                    # a position the index does not have is read: that is a wrong index on every input, not something the analysis cannot read
                    ctx.check('R01.1', False, f"pack_index / unpack_index read only the positions an index of this convention has (arity {arity})", pack, pack.node,
                              construct=f"{ci.short}: {exc}")
                    continue
                raise AnalysisError(f"{ci.short}: pack/unpack uses a construct outside the tuple algebra: {exc}")
            kinds_fi, kind_entries = keyed_collection(ctx, ci, 'grid_kinds')
            all_kinds = expand_entries(ctx, kind_entries)
            single_kind = len({k for k, _ in all_kinds}) == 1
            ok_shape = isinstance(unpacked, tuple) and not is_atom(unpacked) and len(unpacked) == 2
            ok_idx = ok_shape and unpacked[1] == A
            k2 = unpacked[0] if ok_shape else None
            ok_kind = ok_shape and (k2 == K or (single_kind and is_atom(k2) and k2[0] == 'const'
                                                 and p.canonical(unpack.module.resolve(k2[1])) in {k for k, _ in all_kinds}))
            ctx.check('R01.1', ok_idx, f"unpack(pack(K, a)) returns the indexes a unchanged (arity {arity})", unpack, unpack.node,
                      construct=f"{ci.short}: unpack(pack(K, {show(A)})) = {show(unpacked)}")
            ctx.check('R01.1', ok_kind, "unpack(pack(K, a)) returns the kind K", unpack, unpack.node,
                      construct=f"{ci.short}: kind of unpack(pack(K, a)) = {show(k2) if k2 is not None else '?'}")
            # pack(*unpack(I)) == I for I in the image of pack
            try:
                if ok_shape:
                    repacked = TupleEval(pack, {pack.params[1]: K if ok_kind else unpacked[0], pack.params[2]: unpacked[1]}).run()
                else:
                    repacked = None
            except Unsupported as exc:
                raise AnalysisError(f"{ci.short}: {exc}")
            ctx.check('R01.1', repacked == packed, "pack(*unpack(I)) == I", pack, pack.node,
                      construct=f"{ci.short}: pack(*unpack({show(packed)})) = {show(repacked) if repacked is not None else '?'}")

    # ---------------- R01.2 / R01.3 / R01.5 on the shared implementations
    with ctx.section('R01.2 / R01.3 / R01.5 on the shared implementations'):
        for fi in p.implementations(base, 'ravel_index'):
            flow = ctx.flow(fi)
            calls = [c for c in calls_in(fi) if callee(ctx, fi, c) == 'numpy.ravel_multi_index']
            ctx.need('R01.2', len(calls) == 1, f"expected one numpy.ravel_multi_index call, found {len(calls)}", fi)
            call = calls[0]
            unpack_calls = [c for c in calls_in(fi) if isinstance(c.func, ast.Attribute) and c.func.attr == 'unpack_index']
            ctx.need('R01.2', len(unpack_calls) == 1, f"expected one unpack_index call", fi)
            uc = flow.canon(unpack_calls[0])
            ok_u = (len(unpack_calls[0].args) == 1 and flow.canon(unpack_calls[0].args[0]) == ('param', fi.params[1])
                    and flow.canon(unpack_calls[0].func.value) == ('param', 'self'))
            ctx.check('R01.2', ok_u, "the native index argument is unpacked by self.unpack_index", fi, unpack_calls[0])
            a0 = call.args[0] if call.args else kwarg(call, 'multi_index')
            a1 = call.args[1] if len(call.args) > 1 else kwarg(call, 'dims')
            ctx.need('R01.2', a0 is not None and a1 is not None, f"ravel_multi_index without both arguments", fi)
            ctx.check('R01.2', flow.canon(a0) == ('unpack', uc, (1,)), "the multi-index is the unpacked index tuple, unpermuted", fi, call,
                      construct=f"multi_index={norm_text(flow.resolve(a0))}")
            want_shape = ('sub', ('attr', ('param', 'self'), 'grid_shape'), ('unpack', uc, (0,)))
            ctx.check('R01.2', flow.canon(a1) == want_shape, "the shape is self.grid_shape[<kind of the unpacked index>]", fi, call,
                      construct=f"dims={norm_text(flow.resolve(a1))}")
            _no_wrap(ctx, fi, call, ('mode', 'order'))
            # the result passes only through int()
            for r in fi.returns():
                v = flow.resolve(r.value)
                while isinstance(v, ast.Call) and isinstance(v.func, ast.Name) and v.func.id == 'int' and len(v.args) == 1:
                    v = flow.resolve(v.args[0])
                ctx.check('R01.3', v is call, "the linear index is the numpy result itself (no offset, modulo or clamp)", fi, r)

        for fi in p.implementations(base, 'wind_index'):
            flow = ctx.flow(fi)
            calls = [c for c in calls_in(fi) if callee(ctx, fi, c) == 'numpy.unravel_index']
            ctx.need('R01.2', len(calls) == 1, f"expected one numpy.unravel_index call, found {len(calls)}", fi)
            call = calls[0]
            a0 = call.args[0] if call.args else kwarg(call, 'indices')
            a1 = call.args[1] if len(call.args) > 1 else kwarg(call, 'shape')
            ctx.need('R01.2', a0 is not None and a1 is not None, f"unravel_index without both arguments", fi)
            ctx.check('R01.2', flow.canon(a0) == ('param', fi.params[1]), "the linear index argument is unravelled as given", fi, call,
                      construct=f"indices={norm_text(flow.resolve(a0))}")
            packs = [c for c in calls_in(fi) if isinstance(c.func, ast.Attribute) and c.func.attr == 'pack_index']
            ctx.need('R01.2', len(packs) == 1 and len(packs[0].args) == 2, f"expected one pack_index(kind, indexes) call", fi)
            pk = packs[0]
            sh = flow.resolve(a1)
            ok_shape = (isinstance(sh, ast.Subscript) and flow.canon(sh.value) == ('attr', ('param', 'self'), 'grid_shape')
                        and flow.canon(sh.slice) == flow.canon(pk.args[0]))
            ctx.check('R01.2', ok_shape, "the shape is self.grid_shape[<the kind handed to pack_index>]", fi, call,
                      construct=f"shape={norm_text(sh)} ; pack kind={norm_text(pk.args[0])}")
            layers, core = peel_sequence(flow, pk.args[1])
            ok_layers = all(l[0] == 'conv' or (l[0] == 'map' and dotted(l[1]) == 'int')
                            or (l[0] == 'comp' and isinstance(l[1], ast.Call) and dotted(l[1].func) == 'int' and len(l[1].args) == 1 and norm_text(l[1].args[0]) == norm_text(l[2]))
                            for l in layers)
            ctx.check('R01.2', core is call and ok_layers, "pack_index receives the unravelled tuple in order (only tuple/map(int))", fi, pk,
                      construct=f"indexes={norm_text(flow.resolve(pk.args[1]))}")
            _no_wrap(ctx, fi, call, ('order',))
            for r in fi.returns():
                ctx.check('R01.3', flow.resolve(r.value) is pk, "the native index is the packed result itself", fi, r)
            # R01.5
            kind_param = 'grid_kind'
            ctx.need('R01.5', kind_param in fi.params, f"no grid_kind parameter", fi)
            assigns = [n for n in walk_no_nested(fi.node) if isinstance(n, ast.Assign)
                       and any(isinstance(t, ast.Name) and t.id == kind_param for t in n.targets)]
            ok = True
            detail = 'no substitution'
            for a in assigns:
                gs = enclosing_ifs(fi, a)
                good_guard = any(inb and isinstance(st.test, ast.Compare) and len(st.test.ops) == 1
                                 and isinstance(st.test.ops[0], ast.Is) and is_none(st.test.comparators[0])
                                 and isinstance(st.test.left, ast.Name) and st.test.left.id == kind_param
                                 for st, inb in gs)
                good_value = flow.canon(a.value) == ('attr', ('param', 'self'), 'default_grid_kind')
                ok = ok and good_guard and good_value
                detail = norm_text(a)
            # the kind used must be the parameter (possibly defaulted)
            used = flow.canon(pk.args[0])
            uses_param = used == ('param', kind_param) or (used[0] == 'phi' and ('param', kind_param) in used)
            ctx.check('R01.5', ok and uses_param, "grid_kind is the caller's value, replaced by default_grid_kind only under `grid_kind is None`", fi,
                      assigns[0] if assigns else fi.node, construct=f"kind substitution: {detail}; kind used: {norm_text(pk.args[0])}")

        for fi in p.implementations(base, 'grid_shape'):
            flow = ctx.flow(fi)
            for r in fi.returns():
                v = flow.resolve(r.value)
                ok = False
                detail = norm_text(v)
                if isinstance(v, ast.DictComp) and len(v.generators) == 1 and not v.generators[0].ifs \
                        and isinstance(v.generators[0].target, ast.Name) and isinstance(v.key, ast.Name) \
                        and v.key.id == v.generators[0].target.id \
                        and flow.canon(v.generators[0].iter) == ('attr', ('param', 'self'), 'grid_kinds'):
                    kvar = v.key.id
                    layers, core = peel_sequence(flow, v.value)
                    comp = [l for l in layers if l[0] == 'comp']
                    others = [l for l in layers if l[0] not in ('comp', 'conv')]
                    if len(comp) == 1 and not others and isinstance(comp[0][2], ast.Name):
                        dvar = comp[0][2].id
                        elt = comp[0][1]
                        elt_ok = (isinstance(elt, ast.Subscript) and isinstance(elt.slice, ast.Name) and elt.slice.id == dvar
                                  and dotted(elt.value) == 'self.dataset.sizes')
                        core_ok = (isinstance(core, ast.Subscript) and dotted(core.value) == 'self.grid_dimensions'
                                   and isinstance(core.slice, ast.Name) and core.slice.id == kvar)
                        ok = elt_ok and core_ok
                if not ok and fi.cls is not None:
                    ok, detail = _shape_from_counts(ctx, fi, r)
                ctx.check('R01.2', ok, "grid_shape[kind] = tuple(dataset.sizes[d] for d in grid_dimensions[kind]) for kind in grid_kinds, in order "
                          "(a mesh may instead list, kind by kind, the topology's count of that kind's own dimension)", fi, r,
                          construct=f"grid_shape = {detail}")
        # a mesh can name an edge dimension that no variable is defined on: its shape must come from the topology's counts
        # (edge_count falls back to the derived edge table), not from dataset.sizes
        for cls in concrete:
            gd_ = p.resolve_method(cls, 'grid_dimensions')
            gs_ = p.resolve_method(cls, 'grid_shape')
            if gd_ is None or gs_ is None:
                continue
            topo_dims = [n for n in ast.walk(gd_.node) if isinstance(n, ast.Attribute) and n.attr.endswith('_dimension') and norm_text(n.value) == 'self.topology']
            kinds_ = {n.attr[:-len('_dimension')] for n in topo_dims}
            topo_cls = p.cls('emsarray.conventions.ugrid.Mesh2DTopology')
            derived = [k for k in sorted(kinds_) if topo_cls is not None and f"{k}_count" in topo_cls.methods and len(topo_cls.methods[f"{k}_count"].returns()) > 1]
            if not derived:
                continue
            reads_sizes = any(isinstance(n, ast.Attribute) and n.attr == 'sizes' for n in ast.walk(gs_.node))
            ctx.check('R01.2', not reads_sizes and gs_.cls is not None and gs_.cls.qualname != base.qualname,
                      f"{cls.short}: the length of the {', '.join(derived)} grid can be derived by the topology when the dataset has no such dimension, so grid_shape answers from "
                      "the topology's counts and never looks that dimension up in dataset.sizes (grid_size, ravel_index, wind_index of every kind would raise KeyError)", gs_, gs_.node,
                      construct=f"{cls.short}.grid_shape is {gs_.short}; reads dataset.sizes: {reads_sizes}")
        for fi in p.implementations(base, 'grid_size'):
            flow = ctx.flow(fi)
            for r in fi.returns():
                v = flow.resolve(r.value)
                ok = False
                if isinstance(v, ast.DictComp) and len(v.generators) == 1 and not v.generators[0].ifs:
                    g = v.generators[0]
                    it = flow.resolve(g.iter)
                    if isinstance(it, ast.Call) and isinstance(it.func, ast.Attribute) and it.func.attr == 'items' \
                            and dotted(it.func.value) == 'self.grid_shape' and isinstance(g.target, ast.Tuple) \
                            and len(g.target.elts) == 2 and all(isinstance(e, ast.Name) for e in g.target.elts) \
                            and isinstance(v.key, ast.Name) and v.key.id == g.target.elts[0].id:
                        val = v.value
                        while isinstance(val, ast.Call) and isinstance(val.func, ast.Name) and val.func.id == 'int' and len(val.args) == 1:
                            val = val.args[0]
                        if isinstance(val, ast.Call) and callee(ctx, fi, val) in ('numpy.prod', 'math.prod') and len(val.args) == 1 \
                                and not val.keywords and isinstance(val.args[0], ast.Name) and val.args[0].id == g.target.elts[1].id:
                            ok = True
                ctx.check('R01.2', ok, "grid_size[kind] = prod(grid_shape[kind])", fi, r, construct=f"grid_size = {norm_text(v)}")

    # ---------------- R01.2: the dimension order of a SHOC simple grid
    with ctx.section('R01.2 ShocSimple coordinates'):
        # CFGrid2DTopology reads the (y, x) dimensions of the face grid from latitude.dims as stored: the coordinates picked for a
        # SHOC simple dataset have to lie on (j, i) in exactly that order, or a transposed look-alike found first turns the grid round
        from .common import facts as _facts01
        st_ = p.functions.get('emsarray.conventions.shoc.ShocSimple.topology')
        ctx.need('R01.2', st_ is not None, "ShocSimple.topology exists", None)
        sci = p.classes.get('emsarray.conventions.shoc.ShocSimple')
        dims_attr = p.resolve_class_attr(sci, '_dimensions') if sci is not None else None
        lit = dims_attr[1] if dims_attr is not None else None
        ok = isinstance(lit, ast.Tuple) and [const_value(e, None) for e in lit.elts] == ['j', 'i']
        ctx.check('R01.2', ok, "a SHOC simple grid is indexed (j, i): y first", st_, st_.node, construct=f"ShocSimple._dimensions = {norm_text(lit) if lit is not None else '?'}")
        searches = [n for n in ast.walk(st_.node) if isinstance(n, ast.GeneratorExp) and len(n.generators) == 1
                    and norm_text(n.generators[0].iter) in ('self.dataset.variables.items()', 'self.dataset.data_vars.items()', 'self.dataset.coords.items()')]
        ctx.need('R01.2', len(searches) == 2, "ShocSimple.topology searches the dataset for its latitude and its longitude", st_)
        for g_ in searches:
            tgt = g_.generators[0].target
            var = norm_text(tgt.elts[1]) if isinstance(tgt, ast.Tuple) and len(tgt.elts) == 2 else '?'
            fs = _facts01(ctx, st_, g_.elt, expand=False)
            ok = (f"{var}.dims == self._dimensions", True) in fs or (f"self._dimensions == {var}.dims", True) in fs or (f"{var}.dims == ('j', 'i')", True) in fs
            ctx.check('R01.2', ok, "a coordinate of a SHOC simple grid is a variable on (j, i) in that order (the topology takes the grid's dimension order from the coordinate as stored)", st_, g_,
                      construct=f"coordinate search under {sorted(t for t, pol in fs if pol)}"[:300])

        # ... and what was found is what the topology is built on: the latitude search under `latitude`, the longitude search under `longitude`
        tcalls = [c for c in calls_in(st_) if (callee(ctx, st_, c) or '').endswith('CFGrid2DTopology')]
        tflow = ctx.flow(st_)
        tparams = [x for x in (p.functions.get('emsarray.conventions.grid.CFGridTopology.__init__').params if 'emsarray.conventions.grid.CFGridTopology.__init__' in p.functions else []) if x != 'self']
        for key in ('latitude', 'longitude'):
            ok, how = False, 'no CFGrid2DTopology(...) call'
            for c in tcalls:
                arg = arg_or_kw(c, tparams.index(key) if key in tparams else None, key)
                if arg is None:
                    how = f"`{key}` is not handed to the topology (it would search for it by its own rules)"
                    continue
                want = [g_ for g_ in searches if any(t.endswith(f"== '{key}'") and pol for t, pol in _facts01(ctx, st_, g_.elt, expand=False))]
                ok = bool(want) and tflow.reaches(arg, lambda n: any(n is g_ for g_ in want))
                how = f"`{key}` = {norm_text(tflow.resolve(arg))[:60]}"
            ctx.check('R01.2', ok, f"the {key} a SHOC simple grid is built on is the variable found by the {key} search", st_, tcalls[0] if tcalls else st_.node, construct=how)

    # ---------------- R01.4 / R01.6 per convention
    with ctx.section('R01.4 / R01.6 per convention'):
        seen = set()
        for ci in concrete:
            gd = p.resolve_method(ci, 'grid_dimensions')
            kinds_fi, kind_entries = keyed_collection(ctx, ci, 'grid_kinds')
            dims_fi, dim_entries = keyed_collection(ctx, ci, 'grid_dimensions')
            sig = (gd.qualname, kinds_fi.qualname if kinds_fi else 'attr')
            if sig in seen:
                continue
            seen.add(sig)
            kinds = expand_entries(ctx, kind_entries)
            dims = expand_entries(ctx, dim_entries)
            keys_of = [k for k, _ in dims if isinstance(k, tuple) and k[0] == 'keys-of']
            if keys_of:
                # table driven (ArakawaC): every class level table must list every kind, and __init__ must validate
                attr = keys_of[0][1].split('.')[-1]
                kind_names = {k for k, _ in kinds}
                tables = []
                for c in p.subclasses(ci if ci.qualname in p.classes else ci):
                    pass
                owner = dims_fi.cls
                for c in p.subclasses(owner):
                    if attr in c.attrs and isinstance(c.attrs[attr], ast.Dict):
                        tables.append((c, c.attrs[attr]))
                ctx.require(tables, f"{owner.short}: no class level {attr} table found")
                for c, table in tables:
                    tkeys = {p.canonical(c.module.resolve(dotted(k))) for k in table.keys if dotted(k)}
                    ctx.check('R01.4', tkeys == kind_names, f"the {attr} table lists exactly the grid kinds", dims_fi, table,
                              construct=f"{c.short}.{attr} keys {sorted(x.rsplit('.', 1)[-1] for x in tkeys)}")
                init = p.resolve_method(owner, '__init__')
                ok_init = False
                if init is not None:
                    for n in walk_no_nested(init.node):
                        if isinstance(n, ast.If) and isinstance(n.test, ast.Compare) and len(n.test.ops) == 1 \
                                and isinstance(n.test.ops[0], ast.NotEq) \
                                and any(isinstance(s, ast.Raise) for s in n.body):
                            txt = norm_text(n.test)
                            if attr in txt and 'set(' in txt:
                                ok_init = True
                ctx.check('R01.4', ok_init, f"a {attr} argument is rejected unless its keys are exactly the grid kinds", init or dims_fi,
                          (init or dims_fi).node, construct=f"{owner.short}.__init__ validates {attr} keys")
                # R01.6: dims of the kind's own coordinate variable
                comp = [n for n in ast.walk(dims_fi.node) if isinstance(n, ast.DictComp)]
                ok6 = False
                if comp:
                    dc = comp[0]
                    tgt = dc.generators[0].target
                    if isinstance(tgt, ast.Tuple) and len(tgt.elts) == 2 and isinstance(tgt.elts[1], ast.Name):
                        cvar = tgt.elts[1].id
                        val = dc.value
                        while isinstance(val, ast.Call) and (dotted(val.func) or '').rsplit('.', 1)[-1] == 'cast':
                            val = val.args[1]
                        if isinstance(val, ast.Attribute) and val.attr == 'dims' and isinstance(val.value, ast.Subscript) \
                                and dotted(val.value.value) == 'self.dataset' and isinstance(val.value.slice, ast.Subscript) \
                                and isinstance(val.value.slice.value, ast.Name) and val.value.slice.value.id == cvar \
                                and const_value(val.value.slice.slice, None) in (0, 1):
                            ok6 = True
                ctx.check('R01.6', ok6, "each kind's dimensions are the dims of that kind's own coordinate variable, unpermuted", dims_fi,
                          comp[0] if comp else dims_fi.node)
            else:
                ctx.check('R01.4', {k for k, _ in kinds} == {k for k, _ in dims}, "grid_dimensions has exactly the grid_kinds as keys", dims_fi,
                          dims_fi.node, construct=f"{ci.short}: kinds {sorted(str(k).rsplit('.', 1)[-1] for k, _ in kinds)} vs dimension keys {sorted(str(k).rsplit('.', 1)[-1] for k, _ in dims)}")
                ctx.check('R01.4', kinds == dims, "optional kinds are added to both tables under the same condition", dims_fi, dims_fi.node,
                          construct=f"{ci.short}: guards of optional kinds agree: {sorted((str(k).rsplit('.', 1)[-1], g is not None) for k, g in kinds ^ dims)}")
                # R01.6: name agreement kind <-> <kind>_dimension handle
                _kind_dimension_names(ctx, ci, dims_fi)
            # default kind
            dk = p.resolve_class_attr(ci, 'default_grid_kind')
            if dk is None:
                # computed per dataset (a property): the linear indexes of the polygons, the spatial index and point lookup all take
                # the default kind to be one fixed grid, the one the polygons are made for
                dfi = p.resolve_method(ci, 'default_grid_kind')
                ctx.check('R01.4', False, "default_grid_kind is a constant of the class: which grid the polygons and linear indexes belong to does not depend on the dataset's variables",
                          dfi or dims_fi, (dfi or dims_fi).node, construct=f"{ci.short}.default_grid_kind is computed")
                continue
            dkq = p.canonical(dk[0].module.resolve(dotted(dk[1]) or ''))
            ctx.check('R01.4', any(k == dkq and g is None for k, g in kinds), "default_grid_kind is an unconditional member of grid_kinds", dims_fi,
                      dk[1], construct=f"{ci.short}.default_grid_kind = {norm_text(dk[1])}")



def _no_wrap(ctx: Context, fi, call: ast.Call, kws) -> None:
    mode = kwarg(call, 'mode')
    order = kwarg(call, 'order')
    extra_pos = len(call.args) > 2
    ok = (mode is None or const_value(mode, None) == 'raise') and (order is None or const_value(order, None) == 'C') and not extra_pos
    ctx.check('R01.3', ok, "numpy index conversion uses mode='raise' and order='C'", fi, call,
              construct=f"{norm_text(call.func)} options mode={norm_text(mode) if mode is not None else 'default'} order={norm_text(order) if order is not None else 'default'}")
    flow = ctx.flow(fi)
    bad = None
    for a in call.args + [k.value for k in call.keywords]:
        for n, _ in flow.expand(a):
            if isinstance(n, ast.BinOp) and isinstance(n.op, (ast.Mod, ast.FloorDiv)):
                bad = n
            if isinstance(n, ast.Call):
                d = dotted(n.func) or ''
                if d in WRAP_CALLS or d.rsplit('.', 1)[-1] in WRAP_ATTRS:
                    bad = n
    ctx.check('R01.3', bad is None, "no modulo / abs / clip / min / max on the way into the conversion", fi, bad or call,
              construct=f"{norm_text(call.func)} inputs: " + (norm_text(bad) if bad is not None else 'unmodified'))


def _kind_dimension_names(ctx: Context, ci, dims_fi) -> None:
    """`Kind.x: [topology.x_dimension]` - the handle is named after the kind (UGRID terms)."""
    pairs = []
    for node in ast.walk(dims_fi.node):
        if isinstance(node, ast.Dict):
            pairs += list(zip(node.keys, node.values))
        if isinstance(node, ast.Assign) and isinstance(node.targets[0], ast.Subscript):
            pairs.append((node.targets[0].slice, node.value))
    for k, v in pairs:
        kd = dotted(k)
        if kd is None or not isinstance(v, (ast.List, ast.Tuple)):
            continue
        member = kd.rsplit('.', 1)[-1]
        handles = [dotted(e) or norm_text(e) for e in v.elts]
        if len(handles) == 1:
            ok = handles[0].rsplit('.', 1)[-1] == f"{member}_dimension"
            ctx.check('R01.6', ok, "the dimension handle is named after its kind", dims_fi, v,
                      construct=f"{ci.short}: {member} -> {handles}")
        else:
            # multi dimensional single-kind grids: order is decided by C02 (R02.2); here only distinctness
            ctx.check('R01.6', len(set(handles)) == len(handles), "the dimensions of a grid are distinct", dims_fi, v,
                      construct=f"{ci.short}: {member} -> {handles}")


# --------------------------------------------------------------------------- checker self-test
from ..variants import V  # noqa: E402

_B = 'src/emsarray/conventions/_base.py'
_A = 'src/emsarray/conventions/arakawa_c.py'
_U = 'src/emsarray/conventions/ugrid.py'
_G = 'src/emsarray/conventions/grid.py'
VARIANTS = [
    V('C01', 'latitude-name-stored-under-longitude-test', 'src/emsarray/conventions/grid.py', "        if latitude is not None:\n            self.latitude_name = latitude\n", "        if longitude is not None:\n            self.latitude_name = latitude\n", 'R01.9'),
    V('C01', 'mesh-pack-reads-second-position', 'src/emsarray/conventions/ugrid.py', "        return (grid_kind, indexes[0])", "        return (grid_kind, indexes[1])", 'R01.1'),
    V('C01', 'given-latitude-name-not-stored', 'src/emsarray/conventions/grid.py', "        if latitude is not None:\n            self.latitude_name = latitude\n", "        if latitude is None:\n            self.latitude_name = latitude\n", 'R01.9'),
    V('C01', 'given-longitude-name-ignored', 'src/emsarray/conventions/grid.py', "        if longitude is not None:\n            self.longitude_name = longitude\n", "        if longitude is not None:\n            pass\n", 'R01.9'),
    V('C01', 'hand-built-arakawa-names-ignored', 'src/emsarray/conventions/arakawa_c.py', "        if coordinate_names is not None:", "        if coordinate_names is None:", 'R01.9'),
    V('C01', 'shoc-simple-longitude-not-handed-on', 'src/emsarray/conventions/shoc.py', "        return CFGrid2DTopology(self.dataset, latitude=latitude, longitude=longitude)", "        return CFGrid2DTopology(self.dataset, latitude=latitude)", 'R01.2'),
    V('C01', 'shoc-simple-names-exchanged', 'src/emsarray/conventions/shoc.py', "        return CFGrid2DTopology(self.dataset, latitude=latitude, longitude=longitude)", "        return CFGrid2DTopology(self.dataset, latitude=longitude, longitude=latitude)", 'R01.2'),
    V('C01', 'benign-shoc-simple-positional', 'src/emsarray/conventions/shoc.py', "        return CFGrid2DTopology(self.dataset, latitude=latitude, longitude=longitude)", "        return CFGrid2DTopology(self.dataset, longitude, latitude)", None),
    V('C01', 'unravel-alias-drops-grid-kind', 'src/emsarray/conventions/_base.py', "        return self.wind_index(linear_index, grid_kind=grid_kind)", "        return self.wind_index(linear_index)", 'R01.11'),
    V('C01', 'arakawa-unpack-reversed', _A, "        return index[0], index[1:]", "        return index[0], index[:0:-1]", 'R01.1'),
    V('C01', 'arakawa-pack-swapped', _A, "        return cast(ArakawaCIndex, (grid_kind, *indexes))", "        return cast(ArakawaCIndex, (grid_kind, indexes[1], indexes[0]))", 'R01.1'),
    V('C01', 'arakawa-pack-const-kind', _A, "        return cast(ArakawaCIndex, (grid_kind, *indexes))", "        return cast(ArakawaCIndex, (ArakawaCGridKind.face, *indexes))", 'R01.1'),
    V('C01', 'ugrid-unpack-const-kind', _U, "    def unpack_index(self, index: UGridIndex) -> tuple[UGridKind, Sequence[int]]:\n        return index[0], index[1:]", "    def unpack_index(self, index: UGridIndex) -> tuple[UGridKind, Sequence[int]]:\n        return UGridKind.face, index[1:]", 'R01.1'),
    V('C01', 'cfgrid-pack-reversed', _G, "        return cast(CFGridIndex, indexes)", "        return cast(CFGridIndex, tuple(reversed(indexes)))", 'R01.1'),
    V('C01', 'negative-index-wraps-in-select', _B, "        if (index_array < 0).any():\n            raise ValueError(\"Indexes must not be negative\")\n", "", 'R01.10'),
    V('C01', 'mesh-shape-from-dataset-sizes', _U, "    @property\n    def grid_shape(self) -> dict[UGridKind, Sequence[int]]:", "    @property\n    def _unused_grid_shape(self) -> dict[UGridKind, Sequence[int]]:", 'R01.2'),
    V('C01', 'mesh-shape-kinds-crossed', _U, "            UGridKind.node: (self.topology.node_count,),\n            UGridKind.face: (self.topology.face_count,),", "            UGridKind.node: (self.topology.face_count,),\n            UGridKind.face: (self.topology.node_count,),", 'R01.2'),
    V('C01', 'mesh-shape-edge-unguarded', _U, "        if self.topology.has_edge_dimension:\n            shape[UGridKind.edge] = (self.topology.edge_count,)\n        return shape", "        shape[UGridKind.edge] = (self.topology.edge_count,)\n        return shape", 'R01.2'),
    V('C01', 'lone-coordinate-name-ignored', 'src/emsarray/conventions/grid.py', "        if latitude is not None or longitude is not None:", "        if latitude is not None and longitude is not None:", 'R01.9'),
    V('C01', 'mode-wrap', _B, "        return int(numpy.ravel_multi_index(indexes, shape))", "        return int(numpy.ravel_multi_index(indexes, shape, mode='wrap'))", 'R01.3'),
    V('C01', 'mode-clip', _B, "        return int(numpy.ravel_multi_index(indexes, shape))", "        return int(numpy.ravel_multi_index(indexes, shape, mode='clip'))", 'R01.3'),
    V('C01', 'order-F', _B, "        indexes = tuple(map(int, numpy.unravel_index(linear_index, shape)))", "        indexes = tuple(map(int, numpy.unravel_index(linear_index, shape, order='F')))", 'R01.3'),
    V('C01', 'modulo-size', _B, "        indexes = tuple(map(int, numpy.unravel_index(linear_index, shape)))", "        indexes = tuple(map(int, numpy.unravel_index(linear_index % int(numpy.prod(shape)), shape)))", ('R01.2', 'R01.3')),
    V('C01', 'shape-reversed', _B, "            grid_kind: tuple(\n                self.dataset.sizes[dim]\n                for dim in self.grid_dimensions[grid_kind]\n            )", "            grid_kind: tuple(\n                self.dataset.sizes[dim]\n                for dim in reversed(self.grid_dimensions[grid_kind])\n            )", 'R01.2'),
    V('C01', 'wind-default-shape', _B, "        shape = self.grid_shape[grid_kind]\n        indexes = tuple(map", "        shape = self.grid_shape[self.default_grid_kind]\n        indexes = tuple(map", 'R01.2'),
    V('C01', 'ravel-default-shape', _B, "        shape = self.grid_shape[grid_kind]\n        return int(", "        shape = self.grid_shape[self.default_grid_kind]\n        return int(", 'R01.2'),
    V('C01', 'ravel-plus-one', _B, "        return int(numpy.ravel_multi_index(indexes, shape))", "        return int(numpy.ravel_multi_index(indexes, shape)) + 1", 'R01.3'),
    V('C01', 'grid-size-partial', _B, "            grid_kind: int(numpy.prod(shape))", "            grid_kind: int(numpy.prod(shape[:1]))", 'R01.2'),
    V('C01', 'ugrid-edge-kind-only', _U, "        if self.topology.has_edge_dimension:\n            dimensions[UGridKind.edge] = [self.topology.edge_dimension]\n        return dimensions", "        return dimensions", 'R01.4'),
    V('C01', 'ugrid-edge-guard-differs', _U, "        if self.topology.has_edge_dimension:\n            items.append(UGridKind.edge)", "        if self.topology.has_valid_edge_node_connectivity:\n            items.append(UGridKind.edge)", 'R01.4'),
    V('C01', 'ugrid-edge-uses-node-dim', _U, "            dimensions[UGridKind.edge] = [self.topology.edge_dimension]", "            dimensions[UGridKind.edge] = [self.topology.node_dimension]", 'R01.6'),
    V('C01', 'always-default-kind', _B, "        if grid_kind is None:\n            grid_kind = self.default_grid_kind\n        shape = self.grid_shape[grid_kind]\n        indexes", "        grid_kind = self.default_grid_kind\n        shape = self.grid_shape[grid_kind]\n        indexes", 'R01.5'),
    V('C01', 'shoc-table-missing-kind', 'src/emsarray/conventions/shoc.py', "        ArakawaCGridKind.node: ('y_grid', 'x_grid'),\n", "", 'R01.4'),
    V('C01', 'topology-args-positional-swapped', _G, "            topology = self.topology_class(\n                self.dataset, latitude=latitude, longitude=longitude)", "            topology = self.topology_class(\n                self.dataset, latitude, longitude)", 'R01.7'),
    # benign
    V('C01', 'benign-ugrid-pack-last', _U, "        return (grid_kind, indexes[0])", "        return (grid_kind, indexes[-1])", None),
    V('C01', 'benign-explicit-mode', _B, "        return int(numpy.ravel_multi_index(indexes, shape))", "        return int(numpy.ravel_multi_index(indexes, shape, mode='raise', order='C'))", None),
    V('C01', 'benign-rename-locals', _B, "        grid_kind, indexes = self.unpack_index(index)\n        shape = self.grid_shape[grid_kind]\n        return int(numpy.ravel_multi_index(indexes, shape))",
      "        kind, parts = self.unpack_index(index)\n        dims = self.grid_shape[kind]\n        linear = numpy.ravel_multi_index(parts, dims)\n        return int(linear)", None),
]
