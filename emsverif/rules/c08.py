"""C08 - clipping keeps every selected value and blanks everything else."""
from __future__ import annotations

import ast

from ..cfg import stmt_of
from ..linear import Lin, const, linear, symbol
from ..model import AnalysisError, const_value, dotted, kwarg, norm_text, walk_no_nested
from ..report import Context
from .common import arg_or_kw, calls_in, callee, enclosing_ifs, is_none, method_calls
from . import infra as _infra

MASKING = 'emsarray.masking'
UGRID = 'emsarray.conventions.ugrid'
UTILS = 'emsarray.utils'


def run(ctx: Context) -> None:
    p = ctx.p
    ctx.rule('R08.1', "grids: mask and dataset are cropped with the same bounds; every data variable of the cropped dataset is masked with the cropped mask and written (no skipping exit); coordinates come from the cropped dataset; the result is re-assembled like the cropped dataset", floor=7)
    ctx.rule('R08.2', "mask_grid_data_array keeps where the mask is true and fills elsewhere (using only the mask's values, not the coordinates it carries), uses the first mask whose dimensions are a subset of the variable's, restores attrs and encoding, and returns the variable itself when it cannot be masked", floor=6)
    ctx.rule('R08.3', "the crop window per dimension is the half-open slice [first true, last true + 1)", floor=4)
    ctx.rule('R08.4', "meshes: every mesh dimension is paired with the old-to-new table of its own element kind (edges exactly when the mask has an edge table), rows are selected at the axis position of that dimension, and every variable is either a re-indexed topology variable, copied unchanged (no mesh dimension), or row-selected", floor=9)
    ctx.rule('R08.5', "only spatially selected collections reach the output: coordinates forwarded unchanged into a clipped dataset have no mesh dimension / come from the cropped dataset", floor=3)
    ctx.rule('R08.6', "fill value choice: already masked data, then the _FillValue attribute, then missing_value, then the dtype's own NaN, else the variable cannot be masked; an attribute is used whenever it is present (whatever its value)", floor=5)
    ctx.rule('R08.7', "applying a mask never writes into the mask or the input dataset (a saved mask can be applied to a second dataset)", floor=5)
    ctx.rule('R08.9', "coordinates and attributes pass through: the re-assembled dataset takes attributes and encodings back from every variable of the input, "
             "coordinates as well as data variables (facts shared with C09 R09.10)", floor=2)
    from . import c09 as _c09
    from .common import share_obligations as _share8
    _share8(ctx, _c09, {'R09.10'}, 'R08.9')
    from .common import adopt_foundations as _adopt
    _adopt(ctx, 'R08.8', ['masks', 'topology'], floor=60)
    ctx.rule('R08.11', "the crop window is refused only for a mask without a single selected cell", floor=1)
    with ctx.section('R08.11'):
        from . import infra as _infra811
        _infra811.refuses_only_when(ctx, 'R08.11', 'emsarray.masking.calculate_grid_mask_bounds', 'is completely empty',
                                    [('mask_data_array.any().item()', False), ('mask_data_array.any()', False), ('mask_data_array.values.any()', False), ('bool(mask_data_array.any())', False)],
                                    "an empty mask - and only an empty mask - is refused before its window is searched")
    ctx.rule('R08.10', "the grid conventions apply a clip mask through mask_grid_dataset: the mask and the work directory are passed on as given", floor=4)
    with ctx.section('R08.10'):
        from . import infra as _infra10
        for _q in ('emsarray.conventions.grid.CFGrid.apply_clip_mask', 'emsarray.conventions.arakawa_c.ArakawaC.apply_clip_mask'):
            _infra10.passes_parameters_on(ctx, 'R08.10', _q, "apply_clip_mask stands for mask_grid_dataset")
    ctx.assume("xarray where/isel/open_mfdataset; netCDF round trip of the per-variable files (value equality after the round trip is NOT decided)")

    mg = ctx.func(f"{MASKING}.mask_grid_dataset")
    flow = ctx.flow(mg)
    cfg = ctx.cfg(mg)
    ds_p, mask_p = mg.params[0], mg.params[1]
    bc = [c for c in calls_in(mg) if callee(ctx, mg, c) == f"{MASKING}.calculate_grid_mask_bounds"]
    ctx.need('R08.1', len(bc) == 1, "mask_grid_dataset computes the crop bounds once", mg)
    ok = len(bc[0].args) == 1 and flow.canon(bc[0].args[0]) == ('param', mask_p)
    ctx.check('R08.1', ok, "the bounds are those of the mask given", mg, bc[0])
    isels = [c for c in method_calls(mg, 'isel')]
    crops = {}
    for c in isels:
        if len(c.args) == 1 and flow.resolve(c.args[0]) is bc[0]:
            st = stmt_of(mg, c)
            if isinstance(st, ast.Assign) and norm_text(st.targets[0]) == norm_text(c.func.value) and flow.canon(c.func.value)[0] == 'param':
                crops[norm_text(c.func.value)] = st
    ctx.check('R08.1', set(crops) == {ds_p, mask_p}, "mask and dataset are both cropped with those same bounds, replacing the originals", mg,
              isels[0] if isels else mg.node, construct=f"cropped with the same bounds: {sorted(crops)}")
    loops = [n for n in walk_no_nested(mg.node) if isinstance(n, ast.For)]
    ctx.need('R08.1', len(loops) == 1, "mask_grid_dataset loops once over the data variables", mg)
    lp = loops[0]
    it = lp.iter
    ok_iter = norm_text(it) == f"{ds_p}.data_vars.items()" and not any(d.kind == 'param' for d in flow.defs_of(it.func.value.value))
    ctx.check('R08.1', ok_iter, "the loop runs over every data variable of the cropped dataset", mg, lp, construct=f"for ... in {norm_text(it)}")
    skips = [n for n in ast.walk(lp) if isinstance(n, (ast.Continue, ast.Break, ast.Return, ast.If, ast.Try))]
    ctx.check('R08.1', not skips, "no variable is skipped: the loop body has no conditional or early exit", mg, skips[0] if skips else lp,
              construct=f"control flow inside the loop: {[type(s).__name__ for s in skips] or 'none'}")
    mda = [c for c in calls_in(mg) if callee(ctx, mg, c) == f"{MASKING}.mask_grid_data_array"]
    ok = (len(mda) == 1 and any(x is mda[0] for x in ast.walk(lp)) and len(mda[0].args) == 2
          and norm_text(mda[0].args[0]) == mask_p and not any(d.kind == 'param' for d in flow.defs_of(mda[0].args[0]))
          and isinstance(lp.target, ast.Tuple) and norm_text(mda[0].args[1]) == norm_text(lp.target.elts[1]))
    ctx.check('R08.1', ok, "each variable is masked with the cropped mask", mg, mda[0] if mda else lp)
    from ..pattern import Matcher
    mm = Matcher(ctx, mg)
    key_v = lp.target.elts[0].id if isinstance(lp.target, ast.Tuple) and isinstance(lp.target.elts[0], ast.Name) else '?'
    mm.bind['key'] = key_v
    wr = [c for c in calls_in(mg) if callee(ctx, mg, c) == f"{UTILS}.to_netcdf_with_fixes" and any(x is c for x in ast.walk(lp))]
    ok = False
    if len(wr) == 1 and mda:
        mm.bind['masked'] = next((norm_text(st.targets[0]) for st in ast.walk(lp) if isinstance(st, ast.Assign) and st.value is mda[0] and isinstance(st.targets[0], ast.Name)), '?')
        ok = mm.stmt('utils.to_netcdf_with_fixes($masked.to_dataset(name=$key), $vpath)', within=lp) is not None \
            and mm.stmt('$vpath = $$dir / f"{$key}.nc"', within=lp) is not None \
            and mm.stmt('$files.append($vpath)', within=lp) is not None
    ctx.check('R08.1', ok, "the masked variable is written under its own name to its own file, which joins the files to merge", mg, wr[0] if wr else lp)
    co = [c for c in calls_in(mg) if (callee(ctx, mg, c) or '').endswith('xarray.Dataset')]
    ok = len(co) == 1 and norm_text(kwarg(co[0], 'coords') or ast.Constant(None)) == f"{ds_p}.coords" \
        and not any(d.kind == 'param' for d in flow.defs_of(kwarg(co[0], 'coords').value))
    ctx.check('R08.5', ok, "grids: the coordinates written are those of the cropped dataset", mg, co[0] if co else mg.node)
    dl = [c for c in calls_in(mg) if callee(ctx, mg, c) == f"{UTILS}.dataset_like"]
    om = [c for c in calls_in(mg) if (callee(ctx, mg, c) or '').endswith('open_mfdataset')]
    ok = (len(dl) == 1 and len(om) == 1 and norm_text(dl[0].args[0]) == ds_p and not any(d.kind == 'param' for d in flow.defs_of(dl[0].args[0]))
          and flow.resolve(dl[0].args[1]) is om[0] and isinstance(om[0].args[0], ast.Name) and om[0].args[0].id == mm.name('files')
          and all(flow.resolve(r.value) is dl[0] for r in mg.returns()))
    ctx.check('R08.1', ok, "the per-variable files are merged and re-assembled with the cropped dataset's layout and attributes", mg, dl[0] if dl else mg.node)

    # ------------------------------------------------------------------ R08.2
    with ctx.section('R08.2'):
        md = ctx.func(f"{MASKING}.mask_grid_data_array")
        mflow = ctx.flow(md)
        m_p, d_p = md.params[0], md.params[1]
        wh = [c for c in method_calls(md, 'where')]
        ctx.need('R08.2', len(wh) == 1, "mask_grid_data_array applies one where()", md)
        w = wh[0]
        lps = [n for n in walk_no_nested(md.node) if isinstance(n, ast.For)]
        ok_loop = len(lps) == 1 and norm_text(lps[0].iter) == f"{m_p}.data_vars.items()"
        mvar = norm_text(lps[0].target.elts[1]) if ok_loop and isinstance(lps[0].target, ast.Tuple) else None
        other = kwarg(w, 'other') or (w.args[1] if len(w.args) > 1 else None)
        # the condition is the loop's mask, possibly stripped of the coordinates it carries
        cond = mflow.resolve(w.args[0]) if w.args else None
        bare = False
        core = cond
        if isinstance(core, ast.Call) and isinstance(core.func, ast.Attribute) and core.func.attr == 'reset_coords' \
                and const_value(kwarg(core, 'drop') or ast.Constant(None), None) is True and not core.args:
            core, bare = core.func.value, True
        elif isinstance(core, ast.Attribute) and core.attr == 'variable':
            core, bare = core.value, True        # a Variable keeps its dimension names and has no coordinates
        # (.values / .data / .to_numpy() would lose the dimension names: where() would then pair mask and data by position)
        ok = (norm_text(w.func.value) == d_p and core is not None and norm_text(core) == mvar and other is not None
              and mflow.reaches(other, lambda n: isinstance(n, ast.Call) and callee(ctx, md, n) == f"{MASKING}.find_fill_value"))
        ctx.check('R08.2', ok, "values are kept where the mask is True and replaced by the fill value elsewhere: data_array.where(mask, other=fill)", md, w,
                  construct=norm_text(w))
        ctx.check('R08.2', ok and bare, "only the values of the mask are used: coordinates the mask carries (the CF clip mask holds copies of latitude and longitude) are not attached to the masked variable, whose own name may be one of them",
                  md, w, construct=f"where({norm_text(cond) if cond is not None else '?'}, ...)")
        from .common import guards
        g = guards(md, w)
        ok = False
        if ok_loop and len(g) == 1 and g[0][1] is True:
            from .common import positive_conditions as _pc
            conds = [t for t, pol in _pc(md, w) if not isinstance(t, ast.BoolOp)]
            t = conds[0]
            if isinstance(t, ast.Compare) and len(t.ops) == 1:
                a, b = mflow.resolve(t.left), mflow.resolve(t.comparators[0])
                if isinstance(t.ops[0], ast.LtE):
                    a, b = b, a
                if isinstance(t.ops[0], (ast.GtE, ast.LtE)):
                    ok = norm_text(a) == f"set({d_p}.dims)" and norm_text(b) == f"set({mvar}.dims)"
            elif isinstance(t, ast.Call) and isinstance(t.func, ast.Attribute) and t.func.attr in ('issuperset', 'issubset') and len(t.args) == 1:
                a, b = mflow.resolve(t.func.value), mflow.resolve(t.args[0])
                if t.func.attr == 'issubset':
                    a, b = b, a
                ok = norm_text(a) == f"set({d_p}.dims)" and norm_text(b) in (f"set({mvar}.dims)", f"{mvar}.dims")
        ctx.check('R08.2', ok, "a mask applies when all of its dimensions are dimensions of the variable", md, w, construct=f"mask applicability test {g}")
        rets = md.returns()
        in_loop = [r for r in rets if any(x is r for x in ast.walk(lps[0]))] if lps else []
        ok = len(in_loop) == 1 and mflow.reaches(in_loop[0].value, lambda n: n is w)
        ctx.check('R08.2', ok, "the first applicable mask is used (return inside the loop)", md, in_loop[0] if in_loop else md.node)
        restores = {norm_text(n.targets[0]): norm_text(n.value) for n in ast.walk(md.node) if isinstance(n, ast.Assign) and isinstance(n.targets[0], ast.Attribute)}
        ok = restores == {'new_data_array.attrs': f"{d_p}.attrs", 'new_data_array.encoding': f"{d_p}.encoding"}
        ctx.check('R08.2', ok, "attributes and encoding of the variable are restored on the masked copy", md, md.node, construct=f"restored: {restores}")
        untouched = [r for r in rets if r not in in_loop]
        ok = len(untouched) == 2 and all(norm_text(r.value) == d_p for r in untouched)
        tr = [n for n in walk_no_nested(md.node) if isinstance(n, ast.Try)]
        ok = ok and len(tr) == 1 and any(norm_text(h.type) == 'ValueError' and any(isinstance(s, ast.Return) and norm_text(s.value) == d_p for s in h.body) for h in tr[0].handlers)
        ctx.check('R08.2', ok, "a variable without a fill value, or with no applicable mask, is returned as the very same object (cropped, never altered)", md, md.node,
                  construct=f"unmasked exits: {[norm_text(r) for r in untouched]}")
        fv = [c for c in calls_in(md) if callee(ctx, md, c) == f"{MASKING}.find_fill_value"]
        ctx.check('R08.2', len(fv) == 1 and norm_text(fv[0].args[0]) == d_p, "the fill value is chosen for this variable", md, fv[0] if fv else md.node)

    # ------------------------------------------------------------------ R08.3
    with ctx.section('R08.3'):
        cb = ctx.func(f"{MASKING}.calculate_grid_mask_bounds")
        cflow = ctx.flow(cb)
        from ..pattern import Matcher
        mcb = Matcher(ctx, cb)
        mask_p = cb.params[0]
        outer = mcb.stmt(f"for $mname, $marr in {mask_p}.data_vars.items():\n    ...")
        inner = mcb.stmt('for $dim in $marr.dims:\n    ...', within=outer) if outer is not None else None
        vs = None
        if inner is not None:
            for alt in ('$occ = $marr.any(dim=list(set($marr.dims) - {$dim}))', '$occ = $marr.any(dim=set($marr.dims) - {$dim})',
                        '$occ = $marr.any(dim=[$d for $d in $marr.dims if $d != $dim])'):
                vs = vs or mcb.stmt(alt, within=inner)
        ctx.check('R08.3', vs is not None, "per dimension, a position counts when any cell of the mask at that position is True", cb, vs or inner or cb.node,
                  construct=f"occupied = {norm_text(vs.value) if vs is not None else 'not recognised'}")
        lo = mcb.stmt('$lo = next($i for $i, $v in enumerate($occ) if $v)', within=inner) if vs is not None else None
        # or the positions of the True entries taken at once: first, and last + 1
        pos_form = False
        if vs is not None and lo is None:
            pos = mcb.stmt('$pos = numpy.flatnonzero($occ.values)', within=inner) or mcb.stmt('$pos = numpy.flatnonzero($occ)', within=inner)
            if pos is not None:
                lo = mcb.stmt('$lo = int($pos[0])', within=inner) or mcb.stmt('$lo = $pos[0]', within=inner)
                pos_form = lo is not None
        hi = None
        if vs is not None:
            for alt in ('$hi = next(len($occ) - $j for $j, $w in enumerate(reversed($occ)) if $w)',
                        '$hi = next($occ.size - $j for $j, $w in enumerate(reversed($occ)) if $w)',
                        '$hi = len($occ) - next($j for $j, $w in enumerate(reversed($occ)) if $w)'):
                hi = hi or mcb.stmt(alt, within=inner)
            if pos_form:
                hi = mcb.stmt('$hi = int($pos[-1]) + 1', within=inner) or mcb.stmt('$hi = $pos[-1] + 1', within=inner) or mcb.stmt('$hi = int($pos[-1] + 1)', within=inner)
        sl = mcb.stmt('$bounds[$dim] = slice($lo, $hi)', within=inner) if lo is not None and hi is not None else None
        if sl is None and vs is not None:
            # the same two bounds under other names, or written straight into the slice: compared with the locals spelled out
            from .common import expand_locals as _x8
            occ = mcb.name('occ')
            srcs = (occ, f"{occ}.values")
            lows = {f"{w}numpy.flatnonzero({o})[0]{c}" for o in srcs for w, c in (('int(', ')'), ('', ''))}
            highs = {f"{w}numpy.flatnonzero({o})[-1]{c} + 1" for o in srcs for w, c in (('int(', ')'), ('', ''))} | {f"int(numpy.flatnonzero({o})[-1] + 1)" for o in srcs}
            for n in ast.walk(inner):
                if isinstance(n, ast.Assign) and isinstance(n.targets[0], ast.Subscript) and isinstance(n.value, ast.Call) and dotted(n.value.func) == 'slice' \
                        and len(n.value.args) == 2 and not n.value.keywords and isinstance(n.targets[0].value, ast.Name) and norm_text(n.targets[0].slice) == mcb.name('dim'):
                    a_, b_ = (norm_text(_x8(cflow, x, keep=[occ])) for x in n.value.args)
                    if a_ in lows:
                        lo = lo or n
                    if b_ in highs:
                        hi = hi or n
                    if a_ in lows and b_ in highs:
                        sl = n
                        mcb.bind['bounds'] = n.targets[0].value.id
        ctx.check('R08.3', lo is not None, "lower bound = position of the first True", cb, lo or cb.node, construct='lower = next(i for i, v in enumerate(occupied) if v)')
        ctx.check('R08.3', hi is not None, "upper bound = (position of the last True) + 1 = len - (position from the end)", cb, hi or cb.node,
                  construct='upper = next(len(occupied) - i for i, v in enumerate(reversed(occupied)) if v)')
        ok = sl is not None and bool(cb.returns()) and all(isinstance(r.value, ast.Name) and r.value.id == mcb.name('bounds') for r in cb.returns())
        ctx.check('R08.3', ok, "the window is slice(lower, upper) for that dimension", cb, sl or cb.node, construct='bounds[dimension] = slice(lower, upper)')

    # ------------------------------------------------------------------ R08.4 / R08.5 mesh
    with ctx.section('R08.4 / R08.5 mesh'):
        ac = ctx.func(f"{UGRID}.UGrid.apply_clip_mask")
        aflow = ctx.flow(ac)
        dm = [n for n in walk_no_nested(ac.node) if isinstance(n, (ast.Assign, ast.AnnAssign)) and norm_text(n.targets[0] if isinstance(n, ast.Assign) else n.target) == 'dimension_masks']
        ctx.need('R08.4', len(dm) == 1 and isinstance(dm[0].value, ast.Dict), "apply_clip_mask builds the dimension -> row mask table", ac)
        pairs = {norm_text(k): v for k, v in zip(dm[0].value.keys, dm[0].value.values)}
        extra = [n for n in ast.walk(ac.node) if isinstance(n, ast.Assign) and isinstance(n.targets[0], ast.Subscript) and norm_text(n.targets[0].value) == 'dimension_masks']
        for n in extra:
            pairs[norm_text(n.targets[0].slice)] = n.value

        def table_kind(expr) -> str:
            kinds = set()
            for node, _ in aflow.expand(expr):
                if isinstance(node, ast.Subscript) and isinstance(node.slice, ast.Constant) and isinstance(node.slice.value, str) \
                        and node.slice.value.startswith('new_') and 'clip_mask' in norm_text(node.value):
                    kinds.add(node.slice.value[len('new_'):-len('_index')])
            return '|'.join(sorted(kinds)) or '?'

        for kind in ('node', 'face', 'edge'):
            key = f"self.topology.{kind}_dimension"
            v = pairs.get(key)
            ok = v is not None and table_kind(v) == kind and isinstance(v, ast.UnaryOp) and isinstance(v.op, ast.Invert) \
                and isinstance(v.operand, ast.Call) and callee(ctx, ac, v.operand) == 'numpy.ma.getmask'
            ctx.check('R08.4', ok, f"rows along the {kind} dimension are kept where the {kind} old-to-new table is not masked", ac, v if v is not None else dm[0],
                      construct=f"{key}: {norm_text(v) if v is not None else 'absent'} (table of {table_kind(v) if v is not None else '?'})")
        from .common import facts as _facts
        mask_name = ac.params[1]
        EDGE = f"'new_edge_index' in {mask_name}.data_vars"
        eg = sorted(_facts(ctx, ac, extra[0])) if extra else []
        ctx.check('R08.4', eg in ([(EDGE, True)], [(EDGE, True), ('has_edges', True)]) and len(extra) == 1, "the edge dimension is row-selected exactly when the mask carries an edge table (and under no further condition)", ac,
                  extra[0] if extra else dm[0], construct=f"edge entry guard {eg}")
        all_loops = [n for n in walk_no_nested(ac.node) if isinstance(n, ast.For)]
        loops = [n for n in all_loops if not any(n is not o and any(x is n for x in ast.walk(o)) for o in all_loops)]
        ctx.need('R08.4', len(loops) == 1, "apply_clip_mask loops once over the variables", ac)
        lp = loops[0]
        it_txt = norm_text(lp.iter)
        ok = it_txt in ('{**self.dataset.data_vars, **self.dataset.coords}.items()', 'self.dataset.variables.items()')
        ctx.check('R08.4', ok, "every data variable and every coordinate variable is routed", ac, lp, construct=f"for ... in {it_txt}")
        # routing by what is known where each thing happens (if/elif/else, early `continue`, nested ifs: all the same)
        TOPO_T = 'name in topology_variable_names'
        DISJ_T = 'set(data_array.dims).isdisjoint(mesh_dimensions)'

        def known(node):
            fs = _facts(ctx, ac, node, expand=False)
            return ({pol for t, pol in fs if t == TOPO_T} or {None}).pop(), ({pol for t, pol in fs if t == DISJ_T} or {None}).pop(), \
                sorted((t, pol) for t, pol in fs if t not in (TOPO_T, DISJ_T) and not t.startswith(("'new_edge_index'", 'has_edges')))
        copies_ = [c for c in ast.walk(lp) if isinstance(c, ast.Call) and isinstance(c.func, ast.Attribute) and c.func.attr == 'copy' and norm_text(c.func.value) == 'data_array']
        rebuilt_ = [c for c in ast.walk(lp) if isinstance(c, ast.Call) and (callee(ctx, ac, c) or '').endswith('xarray.DataArray')]
        writes_ = [c for c in ast.walk(lp) if isinstance(c, ast.Call) and isinstance(c.func, ast.Attribute) and c.func.attr == 'to_netcdf']
        ok = (len(copies_) == 1 and known(copies_[0]) == (False, True, []) and len(rebuilt_) == 1 and known(rebuilt_[0]) == (False, False, [])
              and writes_ and all(known(w)[0] is False and not known(w)[2] for w in writes_)
              and ({known(w)[1] for w in writes_} == {None} or {known(w)[1] for w in writes_} == {True, False}))
        ctx.check('R08.4', ok, "a variable is a re-indexed topology variable (skipped here), or has no mesh dimension (copied), or is row-selected; every variable that is not a topology variable is written: "
                  "exhaustive three-way routing", ac, lp,
                  construct=f"copy under {[known(c) for c in copies_]}, row selection under {[known(c) for c in rebuilt_]}, write under {[known(c) for c in writes_]} (topology variable?, no mesh dimension?, other)")
        top = lp
        conts = [n for n in ast.walk(lp) if isinstance(n, (ast.Continue, ast.Break, ast.Return))]
        bad_exits = []
        for n in conts:
            fs = _facts(ctx, ac, n, expand=False)
            in_inner = any(isinstance(o, ast.For) and o is not lp and any(x is n for x in ast.walk(o)) for o in ast.walk(lp))
            if isinstance(n, ast.Continue) and not in_inner and (TOPO_T, True) in fs:
                continue
            if isinstance(n, ast.Continue) and in_inner and any(t.endswith(' in dimension_masks') and not pol for t, pol in fs):
                continue
            # a `continue` that ends a branch in which the variable has just been written and listed skips nothing
            if isinstance(n, ast.Continue) and not in_inner:
                done_first = False
                for holder in ast.walk(lp):
                    for fld in ('body', 'orelse'):
                        seq = getattr(holder, fld, None)
                        if isinstance(seq, list) and any(x is n for x in seq):
                            before = seq[:[x is n for x in seq].index(True)]
                            wrote = any(isinstance(c, ast.Call) and isinstance(c.func, ast.Attribute) and c.func.attr == 'to_netcdf' for b in before for c in ast.walk(b))
                            listed = any(isinstance(c, ast.Call) and isinstance(c.func, ast.Attribute) and c.func.attr == 'append' for b in before for c in ast.walk(b))
                            done_first = wrote and listed
                if done_first:
                    continue
            bad_exits.append(n)
        ctx.check('R08.4', not bad_exits, "no other exit skips a variable (only a topology variable is passed over, and in the axis loop only an axis without a row mask)", ac,
                  bad_exits[0] if bad_exits else lp, construct=f"early exits in the loop: {len(conts)}, unexplained: {len(bad_exits)}")
        inner = [n for n in ast.walk(lp) if isinstance(n, ast.For)]
        inner = [n for n in inner if n is not lp]
        def is_full_slice(e) -> bool:
            e = aflow.resolve(e)
            if isinstance(e, ast.Subscript) and norm_text(e.value).endswith('s_') and isinstance(e.slice, ast.Slice) \
                    and e.slice.lower is None and e.slice.upper is None and e.slice.step is None:
                return True
            return isinstance(e, ast.Call) and dotted(e.func) == 'slice' and 1 <= len(e.args) <= 3 and all(const_value(x, 0) is None for x in e.args)

        def segments(e):
            """[('full', count canon) | ('item', node)] for an index tuple built from displays, + and *."""
            e = aflow.resolve(e)
            if isinstance(e, ast.Call) and isinstance(e.func, ast.Name) and e.func.id in ('tuple', 'list') and len(e.args) == 1:
                return segments(e.args[0])
            if isinstance(e, ast.BinOp) and isinstance(e.op, ast.Add):
                l, r = segments(e.left), segments(e.right)
                return None if l is None or r is None else l + r
            if isinstance(e, ast.BinOp) and isinstance(e.op, ast.Mult):
                for seq_, n_ in ((e.left, e.right), (e.right, e.left)):
                    sq = aflow.resolve(seq_)
                    if isinstance(sq, (ast.List, ast.Tuple)) and len(sq.elts) == 1 and is_full_slice(sq.elts[0]):
                        return [('full', aflow.canon(n_))]
                return None
            if isinstance(e, (ast.List, ast.Tuple)):
                return [('full', ('const', '1')) if is_full_slice(x) else ('item', x) for x in e.elts]
            return None

        ok = False
        if len(inner) == 1:
            il = inner[0]
            it = aflow.resolve(il.iter)
            ok = (isinstance(it, ast.Call) and dotted(it.func) == 'enumerate' and len(it.args) == 1 and norm_text(it.args[0]) == 'data_array.dims'
                  and isinstance(il.target, ast.Tuple) and len(il.target.elts) == 2 and all(isinstance(x, ast.Name) for x in il.target.elts))
            if ok:
                ivar, dvar = il.target.elts[0].id, il.target.elts[1].id
                picks = [n for n in ast.walk(il) if isinstance(n, ast.Assign) and isinstance(n.value, ast.Subscript) and isinstance(n.targets[0], ast.Name)
                         and isinstance(n.value.value, ast.Name) and n.value.value.id == n.targets[0].id]
                ok = len(picks) == 1
                if ok:
                    from .common import guards
                    sg = segments(picks[0].value.slice)
                    if sg is not None and len(sg) == 2 and sg[0][0] == 'full' and sg[1][0] == 'item':
                        cnt_ok = any(isinstance(n, ast.Name) and n.id == ivar for n, _ in aflow.expand(picks[0].value.slice)) and \
                            isinstance(sg[0][1], tuple) and sg[0][1][0] == 'iter' and sg[0][1][2] == (0,)
                        item = aflow.resolve(sg[1][1])
                        item_ok = isinstance(item, ast.Subscript) and norm_text(item.value) == 'dimension_masks' and isinstance(item.slice, ast.Name) and item.slice.id == dvar
                        ok = cnt_ok and item_ok and (f"{dvar} in dimension_masks", True) in _facts(ctx, ac, picks[0], expand=False)
                    else:
                        ok = False
        ctx.check('R08.4', ok, "rows are selected with the mask of that dimension at that dimension's own axis position", ac, inner[0] if inner else lp)
        rebuilt = [c for c in calls_in(ac) if (callee(ctx, ac, c) or '').endswith('xarray.DataArray') and any(x is c for x in ast.walk(lp))]
        ok = len(rebuilt) == 1 and {k.arg: norm_text(k.value) for k in rebuilt[0].keywords} == {'data': 'values', 'dims': 'data_array.dims', 'name': 'name'}
        ctx.check('R08.4', ok, "the selected values keep the variable's dimensions and name", ac, rebuilt[0] if rebuilt else lp)
        mdims = [n for n in walk_no_nested(ac.node) if isinstance(n, ast.Assign) and norm_text(n.targets[0]) == 'mesh_dimensions']
        ok = len(mdims) == 1 and norm_text(mdims[0].value) == 'set(dimension_masks)'
        ctx.check('R08.4', ok, "the mesh dimensions are exactly the dimensions that have a row mask", ac, mdims[0] if mdims else ac.node)
        # R08.5: coordinates forwarded unchanged into an output dataset
        for c in calls_in(ac):
            if (callee(ctx, ac, c) or '').endswith('xarray.Dataset') and kwarg(c, 'coords') is not None:
                co = kwarg(c, 'coords')
                txt = norm_text(co)
                ok = isinstance(co, ast.DictComp) and len(co.generators) == 1 and len(co.generators[0].ifs) == 1 \
                    and norm_text(co.generators[0].ifs[0]).replace(' ', '') == 'set(coord.dims).isdisjoint(mesh_dimensions)'.replace(' ', '') \
                    and norm_text(co.generators[0].iter) == 'self.dataset.coords.items()'
                ctx.check('R08.5', ok, "meshes: only coordinates without a mesh dimension are forwarded unchanged (the others are row-selected)", ac, c,
                          construct=f"coords={txt[:110]}")
        fin = [c for c in calls_in(ac) if callee(ctx, ac, c) == f"{UTILS}.dataset_like"]
        ok = len(fin) == 1 and norm_text(fin[0].args[0]) == 'self.dataset' and all(aflow.resolve(r.value) is fin[0] for r in ac.returns())
        ctx.check('R08.5', ok, "the result is re-assembled from the written (selected) files only, with the input's layout", ac, fin[0] if fin else ac.node)

        from .common import purity_obligations
        purity_obligations(ctx, 'R08.7', ac, ['clip_mask'], "UGrid.apply_clip_mask")
        purity_obligations(ctx, 'R08.7', mg, [ds_p, mask_p], "mask_grid_dataset")
        purity_obligations(ctx, 'R08.7', md, [m_p, d_p], "mask_grid_data_array")

    # ------------------------------------------------------------------ R08.6
    with ctx.section('R08.6'):
        ff = ctx.func(f"{MASKING}.find_fill_value")
        fflow = ctx.flow(ff)
        fcfg = ctx.cfg(ff)
        rets = ff.returns()
        from .common import facts as _facts08
        seq = []
        for r in sorted(rets, key=lambda r: r.lineno):
            seq.append((norm_text(r.value), _facts08(ctx, ff, r, expand=False)))
        dp = ff.params[0]
        MASKED = f'numpy.any(numpy.ma.getmask({dp}.values))'
        other = lambda fs: {c for c in fs if 'encod' not in c[0]}       # noqa: E731  (the refusal of packed integers is judged below)
        ok = (len(seq) == 3 and seq[0][0] == 'numpy.ma.masked' and seq[0][1] == {(MASKED, True)}
              and seq[1][0] == f'{dp}.attrs[attr]' and other(seq[1][1]) == {(f'attr in {dp}.attrs', True), (MASKED, False)}
              and seq[2][0] == 'fill_value' and (f'promoted_dtype == {dp}.dtype', True) in seq[2][1]
              and other(seq[2][1]) <= {(f'promoted_dtype == {dp}.dtype', True), (MASKED, False), (f'attr in {dp}.attrs', False)})
        ctx.check('R08.6', ok, "masked data first; then an attribute that is present (membership test, any value); then the dtype's own missing value", ff, ff.node,
                  construct=f"returns: {seq}")
        loops_ = [n for n in walk_no_nested(ff.node) if isinstance(n, ast.For) and any(isinstance(x, ast.Return) for x in ast.walk(n))]
        order_ = None
        if len(loops_) == 1:
            it_ = fflow.resolve(loops_[0].iter)
            if isinstance(it_, (ast.List, ast.Tuple)):
                order_ = [const_value(e, None) for e in it_.elts]
        ok = order_ == ['_FillValue', 'missing_value']
        ctx.check('R08.6', ok, "_FillValue is preferred over missing_value", ff, loops_[0] if loops_ else ff.node, construct=f"attributes tried in order: {order_}")
        ex = fcfg.exits()
        ok = not [n for k, n in ex if k == 'fall'] and any(k == 'raise' and 'ValueError' in norm_text(n) for k, n in ex)
        ctx.check('R08.6', ok, "a variable with no usable fill value raises ValueError (and is then left unmasked)", ff, ff.node)
        # what is float in memory may be packed integers on disk: the masked variable is written with its source's encoding
        packed = None
        for n in walk_no_nested(ff.node):
            if isinstance(n, ast.Raise) and 'ValueError' in norm_text(n):
                g = guards(ff, n)
                texts = {t for t, pol in g if pol}
                neg = {t for t, pol in g if not pol}
                kind_ok = any(('.kind in' in t and all(k in t.split('.kind in')[1] for k in 'iu')) or 'numpy.integer' in t for t in texts)
                # "no fill value" is: the key is absent from the encoding *or holds None* (utils.disable_default_fill_value records "none" that way).
                # The presence of the key alone says nothing: the refusal must stand under `encoding.get(k) is None`.
                def _absent_or_none(key):
                    return (any(t in (f"{dp}.encoding.get('{key}') is None", f"{dp}.encoding.get('{key}', None) is None") for t in texts)
                            or any(t in (f"{dp}.encoding.get('{key}') is not None", f"{dp}.encoding.get('{key}', None) is not None") for t in neg))
                no_fill = _absent_or_none('_FillValue') and _absent_or_none('missing_value')
                # ... and the refusal is not narrowed by anything else: a plain packed integer variable (no scale_factor) is float in memory just
                # the same once it has been decoded with a fill value elsewhere; any further conjunct lets some packed variable through to the nan

                def _explained(t_, pol_):
                    if 'dtype' in t_ and ('is not None' in t_ or ' in ' in t_) and pol_:
                        return True
                    if 'dtype' in t_ and 'is None' in t_ and not pol_:
                        return True
                    if ('.kind in' in t_ or 'numpy.integer' in t_ or 'issubdtype' in t_) and pol_:
                        return True
                    if "'_FillValue'" in t_ or "'missing_value'" in t_:
                        return True
                    if 'getmask' in t_ or 'is_masked' in t_ or '.attrs' in t_:
                        return not pol_
                    return False
                extra_ = sorted(t_ for t_, pol_ in g if not _explained(t_, pol_))
                if extra_:
                    no_fill = False
                # the on-disk type is read under its own key
                import re as _re8
                if not any(isinstance(c_, ast.Call) and (dotted(c_.func) or '').endswith('numpy.dtype') and c_.args
                           and _re8.search(r"encoding\w*(\.get\('dtype'[,)]|\['dtype'\])", norm_text(fflow.resolve(c_.args[0]))) for c_ in ast.walk(ff.node)):
                    no_fill = False
                if kind_ok and no_fill:
                    packed = n
        third = sorted(rets, key=lambda r: r.lineno)[-1] if rets else None
        ctx.check('R08.6', packed is not None and third is not None and packed.lineno < third.lineno,
                  "a variable packed into an integer type on disk whose encoding has no _FillValue / missing_value (absent, or None) has no usable fill value, although it is a float variable in memory: "
                  "the nan would be written through the integer encoding and come back as a made-up number", ff, packed or ff.node,
                  construct=f"refusal of packed variables without a fill value: {'line ' + str(packed.lineno) if packed is not None else 'absent'}")
        pr = [c for c in calls_in(ff) if (callee(ctx, ff, c) or '').endswith('maybe_promote')]
        ok = len(pr) == 1 and norm_text(pr[0].args[0]) == 'data_array.dtype'
        ctx.check('R08.6', ok, "the dtype's own missing value comes from promoting the variable's dtype", ff, pr[0] if pr else ff.node)
        _infra.fill_marker_on_copies(ctx, 'R08.6')
        order = [r.lineno for r in sorted(rets, key=lambda r: r.lineno)]
        ok = len(rets) == 3 and fcfg.reachable(ast_entry(ff), rets[0]) if False else True
        ctx.check('R08.6', order == sorted(order) and len(rets) == 3, "the three sources are tried in that order", ff, ff.node, construct=f"return lines {order}")



def ast_entry(fi):  # pragma: no cover - helper kept for symmetry
    return fi.node.body[0]


# --------------------------------------------------------------------------- checker self-test
from ..variants import V  # noqa: E402

_M = 'src/emsarray/masking.py'
_U = 'src/emsarray/conventions/ugrid.py'
VARIANTS = [
    V('C08', 'on-disk-type-read-under-another-key', 'src/emsarray/masking.py', "    encoded_dtype = data_array.encoding.get('dtype')\n", "    encoded_dtype = data_array.encoding.get('dtyp')\n", 'R08.6'),
    V('C08', 'packed-refusal-only-for-scaled', 'src/emsarray/masking.py', "        encoded_dtype is not None\n        and numpy.dtype(encoded_dtype).kind in 'iub'", "        encoded_dtype is not None\n        and 'scale_factor' in data_array.encoding\n        and numpy.dtype(encoded_dtype).kind in 'iub'", 'R08.6'),
    V('C08', 'packed-without-fill-gets-nan', _M, "        and numpy.dtype(encoded_dtype).kind in 'iub'\n        and data_array.encoding.get('_FillValue') is None\n", "        and numpy.dtype(encoded_dtype).kind in 'iub'\n        and data_array.encoding.get('_FillValue') is not None\n", 'R08.6'),
    V('C08', 'packed-none-marker-counts-as-fill', _M, "        and data_array.encoding.get('_FillValue') is None\n        and data_array.encoding.get('missing_value') is None\n", "        and '_FillValue' not in data_array.encoding\n        and 'missing_value' not in data_array.encoding\n", 'R08.6'),
    V('C08', 'benign-packed-none-default-spelled', _M, "        and data_array.encoding.get('_FillValue') is None\n", "        and data_array.encoding.get('_FillValue', None) is None\n", None),
    V('C08', 'packed-check-removed', _M, "        raise ValueError(\"No appropriate fill value found\")\n\n    promoted_dtype", "        pass\n\n    promoted_dtype", 'R08.6'),
    V('C08', 'mask-applied-by-position', 'src/emsarray/masking.py', "condition = mask_data_array.reset_coords(drop=True)", "condition = mask_data_array.values", 'R08.2'),
    V('C08', 'benign-mask-as-variable', 'src/emsarray/masking.py', "condition = mask_data_array.reset_coords(drop=True)", "condition = mask_data_array.variable", None),
    V('C08', 'mask-coordinates-attached', 'src/emsarray/masking.py', "            condition = mask_data_array.reset_coords(drop=True)\n", "            condition = mask_data_array\n", 'R08.2'),
    V('C08', 'where-inverted', _M, "data_array.where(condition, other=fill_value))", "data_array.where(~condition, other=fill_value))", 'R08.2'),
    V('C08', 'mask-any-overlap', _M, "        if dimensions >= set(mask_data_array.dims):", "        if dimensions & set(mask_data_array.dims):", 'R08.2'),
    V('C08', 'upper-bound-short', _M, "            max_index = next(len(values) - i for i, value in enumerate(reversed(values)) if value)", "            max_index = next(len(values) - i - 1 for i, value in enumerate(reversed(values)) if value)", 'R08.3'),
    V('C08', 'dataset-not-cropped', _M, "    mask = mask.isel(bounds)\n    dataset = dataset.isel(bounds)", "    mask = mask.isel(bounds)", 'R08.1'),
    V('C08', 'routing-continue', _M, "    for key, data_array in dataset.data_vars.items():\n        masked_data_array", "    for key, data_array in dataset.data_vars.items():\n        if data_array.dtype.kind in 'SU':\n            continue\n        masked_data_array", 'R08.1'),
    V('C08', 'coords-from-uncropped', _M, "    mask = mask.isel(bounds)\n    dataset = dataset.isel(bounds)", "    mask = mask.isel(bounds)\n    full_dataset = dataset\n    dataset = dataset.isel(bounds)", None),
    V('C08', 'face-dim-node-table', _U, "            topology.face_dimension: ~numpy.ma.getmask(new_face_indexes),\n        }", "            topology.face_dimension: ~numpy.ma.getmask(new_node_indexes),\n        }", 'R08.4'),
    V('C08', 'edge-mask-needs-edge-node', _U, "        if has_edges:\n            dimension_masks[topology.edge_dimension]", "        if has_edges and topology.has_valid_edge_node_connectivity:\n            dimension_masks[topology.edge_dimension]", 'R08.4'),
    V('C08', 'slice-axis-off', _U, "slice_index = tuple([numpy.s_[:]] * index + [dimension_masks[dim]])", "slice_index = tuple([numpy.s_[:]] * (index + 1) + [dimension_masks[dim]])", 'R08.4'),
    V('C08', 'coords-unsliced-again', _U, "            coords={\n                name: coord for name, coord in dataset.coords.items()\n                if set(coord.dims).isdisjoint(mesh_dimensions)},", "            coords=dataset.coords,", 'R08.5'),
    V('C08', 'mask-indexes-no-copy', _U, "            masked_values = numpy.ma.masked_invalid(data_array.values)", "            masked_values = numpy.ma.masked_invalid(data_array.values, copy=False)", 'R08.7'),
    V('C08', 'fill-zero-ignored', _M, "        if attr in data_array.attrs:\n", "        if data_array.attrs.get(attr):\n", 'R08.6'),
    V('C08', 'missing-value-first', _M, "    attrs = ['_FillValue', 'missing_value']", "    attrs = ['missing_value', '_FillValue']", 'R08.6'),
]
