"""C05 - index and point selection return the stored values, complete and in order."""
from __future__ import annotations

import ast

from ..model import AnalysisError, const_value, dotted, kwarg, norm_text, walk_no_nested
from ..report import Context
from .common import (
    arg_or_kw, calls_in, callee, emptiness_test, enclosing_ifs, is_none, literal_annotation_values,
    literal_strings, method_calls, param_annotation, peel_sequence,
)

BASE = 'emsarray.conventions._base.Convention'
DIMCONV = 'emsarray.conventions._base.DimensionConvention'
PX = 'emsarray.operations.point_extraction'
UTILS = 'emsarray.utils'


def _none_filter(flow, comp, over_canon, *, want_not_none=True):
    """comp is a comprehension over `over_canon` with exactly the filter `<element> is not None`."""
    if not isinstance(comp, (ast.ListComp, ast.GeneratorExp)) or len(comp.generators) != 1:
        return False, None
    g = comp.generators[0]
    it = flow.resolve(g.iter)
    tgt = g.target
    elem = None
    if isinstance(it, ast.Call) and dotted(it.func) == 'enumerate' and len(it.args) == 1 and not it.keywords \
            and isinstance(tgt, ast.Tuple) and len(tgt.elts) == 2:
        if flow.canon(it.args[0]) != over_canon:
            return False, None
        elem = tgt.elts[1]
    else:
        if flow.canon(it) != over_canon:
            return False, None
        elem = tgt
    if not isinstance(elem, ast.Name) or len(g.ifs) != 1:
        return False, None
    t = g.ifs[0]
    ok = (isinstance(t, ast.Compare) and len(t.ops) == 1 and isinstance(t.ops[0], ast.IsNot if want_not_none else ast.Is)
          and is_none(t.comparators[0]) and isinstance(t.left, ast.Name) and t.left.id == elem.id)
    return ok, (tgt, elem)


def _flip(kind):
    return {'none': 'notnone', 'notnone': 'none'}.get(kind)


def _lookup_mask(ctx, fi, flow, e, over_canon, depth=6):
    """Which lookups a boolean mask over the lookups marks: 'none' (the misses), 'notnone' (the hits), or None when it is neither."""
    if depth <= 0:
        return None
    e = flow.resolve(e)
    if isinstance(e, ast.UnaryOp) and isinstance(e.op, (ast.Invert, ast.Not)):
        return _flip(_lookup_mask(ctx, fi, flow, e.operand, over_canon, depth - 1))
    if isinstance(e, ast.Compare) and len(e.ops) == 1 and flow.canon(e.left) == over_canon and is_none(e.comparators[0]):
        return 'none' if isinstance(e.ops[0], ast.Eq) else 'notnone' if isinstance(e.ops[0], ast.NotEq) else None
    if isinstance(e, ast.Call):
        q = callee(ctx, fi, e) or ''
        if q in ('numpy.equal', 'numpy.not_equal') and len(e.args) == 2 and flow.canon(e.args[0]) == over_canon and is_none(e.args[1]):
            return 'none' if q == 'numpy.equal' else 'notnone'
        if q in ('numpy.logical_not', 'numpy.invert') and len(e.args) == 1:
            return _flip(_lookup_mask(ctx, fi, flow, e.args[0], over_canon, depth - 1))
        if q in ('numpy.array', 'numpy.asarray', 'numpy.fromiter') and e.args:
            return _lookup_mask(ctx, fi, flow, e.args[0], over_canon, depth - 1)
    if isinstance(e, (ast.ListComp, ast.GeneratorExp)) and len(e.generators) == 1 and not e.generators[0].ifs \
            and flow.canon(e.generators[0].iter) == over_canon and isinstance(e.generators[0].target, ast.Name) \
            and isinstance(e.elt, ast.Compare) and len(e.elt.ops) == 1 and is_none(e.elt.comparators[0]) \
            and isinstance(e.elt.left, ast.Name) and e.elt.left.id == e.generators[0].target.id:
        return 'none' if isinstance(e.elt.ops[0], ast.Is) else 'notnone' if isinstance(e.elt.ops[0], ast.IsNot) else None
    return None


def _lookup_positions(ctx, fi, flow, e, over_canon, depth=6):
    """Which lookups an ascending sequence of positions names: 'none', 'notnone' or None."""
    if depth <= 0:
        return None
    e = flow.resolve(e)
    if isinstance(e, ast.Call) and isinstance(e.func, ast.Attribute) and e.func.attr == 'tolist' and not e.args:
        return _lookup_positions(ctx, fi, flow, e.func.value, over_canon, depth - 1)
    if isinstance(e, ast.Call) and dotted(e.func) in ('list', 'tuple') and len(e.args) == 1:
        return _lookup_positions(ctx, fi, flow, e.args[0], over_canon, depth - 1)
    if isinstance(e, ast.Call) and (callee(ctx, fi, e) or '') == 'numpy.flatnonzero' and len(e.args) == 1:
        return _lookup_mask(ctx, fi, flow, e.args[0], over_canon, depth - 1)
    for want, kind in ((True, 'notnone'), (False, 'none')):
        ok, tgt = _none_filter(flow, e, over_canon, want_not_none=want)
        if ok and isinstance(tgt[0], ast.Tuple) and isinstance(e.elt, ast.Name) and isinstance(tgt[0].elts[0], ast.Name) and e.elt.id == tgt[0].elts[0].id:
            return kind
    return None


def run(ctx: Context) -> None:
    p = ctx.p
    base = p.cls(BASE)
    dimconv = p.cls(DIMCONV)
    ctx.rule('R05.1', "select_indexes applies the selector positionally (isel) to the dataset (geometry dropped on request) restricted to variables that use a selected dimension; the selector pairs column i with dimension i of the kind's grid_dimensions and keeps request order", floor=16)
    ctx.rule('R05.2', "extract_points looks every point up once in request order; 'error' raises with exactly the positions whose lookup is None; the selected indexes and their positional labels are the same sequence under the same `is not None` filter", floor=8)
    ctx.rule('R05.3', "missing-point policy tables agree between select_points, extract_points, extract_dataframe and the command line; 'error' is forwarded, the others mean drop; the merge is outer exactly for 'fill', and what 'fill' promotes is saved as promoted", floor=7)
    ctx.rule('R05.4', "single-index selection uses a fresh dimension name and squeezes exactly that dimension", floor=4)
    ctx.rule('R05.6', "the columns of the input table are attached by row position: the table is re-indexed 0..n-1 (the labels extract_points gives its points) before it is merged, whatever index the DataFrame carries", floor=2)
    ctx.rule('R05.5', "point selection finds the cell through Convention.get_index_for_point: an 'intersects' query of the point itself, the first (lowest) hit wound to the native index, and no way to answer None other than an empty hit set (facts shared with C04 R04.1-R04.4)", floor=9)
    from . import c04 as _c04
    from .common import share_obligations as _share
    _share(ctx, _c04, {'R04.1', 'R04.2', 'R04.3', 'R04.4'}, 'R05.5')
    ctx.rule('R05.8', "selections leave geometry out: the inventory of a CF grid names its bounds variables by the coordinates' own `bounds` attributes", floor=1)
    from . import infra as _infra
    _infra.cf_inventory_bounds(ctx, 'R05.8')
    from .common import adopt_foundations as _adopt
    _adopt(ctx, 'R05.7', ['geometry', 'order'], floor=60)
    ctx.rule('R05.9', "the names a caller chose for the new dimension are kept: a default is substituted only where none was given", floor=3)
    with ctx.section('R05.9'):
        from . import infra as _infra9
        _infra9.none_default_discipline(ctx, 'R05.9', ['emsarray.conventions._base.Convention.select_points', 'emsarray.conventions._base.DimensionConvention.selector_for_indexes',
                                                       'emsarray.operations.point_extraction.extract_points'])
        _infra9.passes_parameters_on(ctx, 'R05.9', 'emsarray.conventions._base.Convention.select_points', "select_points stands for extract_points")
    ctx.assume("xarray Dataset.isel with a Dataset of integer arrays on a shared new dimension performs pointwise positional selection; pandas/xarray merges align on the point dimension")

    # ------------------------------------------------------------------ select_indexes
    with ctx.section('select_indexes'):
        for fi in p.implementations(base, 'select_indexes'):
            flow = ctx.flow(fi)
            sel_calls = [c for c in method_calls(fi, 'selector_for_indexes') if flow.canon(c.func.value) == ('param', 'self')]
            ctx.need('R05.1', len(sel_calls) == 1, f"expected one selector_for_indexes call", fi)
            sc = sel_calls[0]
            ctx.check('R05.1', len(sc.args) >= 1 and flow.canon(sc.args[0]) == ('param', fi.params[1]),
                      "the requested indexes reach the selector unmodified (repeats and order kept)", fi, sc,
                      construct=f"selector_for_indexes({norm_text(sc.args[0]) if sc.args else ''}, ...)")
            idk = kwarg(sc, 'index_dimension')
            ctx.check('R05.1', idk is not None and flow.canon(idk) == ('param', 'index_dimension'),
                      "the caller's index dimension name is used", fi, sc, construct=f"index_dimension={norm_text(idk) if idk is not None else 'dropped'}")
            rets = fi.returns()
            ctx.need('R05.1', len(rets) == 1, f"expected one return", fi)
            rv = flow.resolve(rets[0].value)
            ok_isel = (isinstance(rv, ast.Call) and isinstance(rv.func, ast.Attribute) and rv.func.attr == 'isel'
                       and len(rv.args) == 1 and not rv.keywords and flow.resolve(rv.args[0]) is sc)
            ctx.check('R05.1', ok_isel, "the result is <dataset>.isel(<that selector>): positional, not label based", fi, rets[0])
            # the dataset selected from
            if ok_isel:
                src = flow.resolve(rv.func.value)
                ok_src = isinstance(src, ast.Call) and callee(ctx, fi, src) == f"{UTILS}.extract_vars" and len(src.args) >= 2
                names = flow.resolve(src.args[1]) if ok_src else None
                ds_c = flow.canon(src.args[0]) if ok_src else None
                want_a = ('call', ('attr', ('param', 'self'), 'drop_geometry'), (), ())
                want_b = ('attr', ('param', 'self'), 'dataset')
                chosen = flow.resolve(src.args[0]) if ok_src else None
                ok_ds = branch_ok = False
                if isinstance(chosen, ast.IfExp):
                    # (if/else statements assigning one name are normalised to a conditional expression)
                    test, yes, no = chosen.test, chosen.body, chosen.orelse
                    if isinstance(test, ast.UnaryOp) and isinstance(test.op, ast.Not):
                        test, yes, no = test.operand, no, yes
                    ok_ds = {flow.canon(yes), flow.canon(no)} == {want_a, want_b}
                    branch_ok = flow.canon(test) == ('param', 'drop_geometry') and flow.canon(yes) == want_a and flow.canon(no) == want_b
                ctx.check('R05.1', ok_src and ok_ds, "the source is self.drop_geometry() or self.dataset, reduced by utils.extract_vars", fi, rets[0],
                          construct=f"source dataset = {norm_text(src)[:110]}")
                ctx.check('R05.1', branch_ok, "geometry is dropped exactly when drop_geometry is true", fi, fi.node,
                          construct=f"source = {norm_text(chosen)[:90] if chosen is not None else '?'}")
                ok_names = False
                if isinstance(names, ast.ListComp) and len(names.generators) == 1:
                    g = names.generators[0]
                    it = flow.resolve(g.iter)
                    # (Dataset.items() iterates the data variables: `dataset.data_vars.items()` is the same loop)
                    ok_it = (isinstance(it, ast.Call) and isinstance(it.func, ast.Attribute) and it.func.attr == 'items'
                             and (flow.canon(it.func.value) == ds_c
                                  or (isinstance(it.func.value, ast.Attribute) and it.func.value.attr == 'data_vars' and flow.canon(it.func.value.value) == ds_c)))
                    ok_elt = (isinstance(g.target, ast.Tuple) and isinstance(names.elt, ast.Name)
                              and isinstance(g.target.elts[0], ast.Name) and names.elt.id == g.target.elts[0].id)
                    ok_if = False
                    if len(g.ifs) == 1:
                        t = g.ifs[0]
                        if isinstance(t, ast.Call) and isinstance(t.func, ast.Attribute) and t.func.attr == 'intersection' and len(t.args) == 1:
                            recv = flow.resolve(t.func.value)
                            arg = t.args[0]
                            ok_arg = (isinstance(arg, ast.Attribute) and arg.attr == 'dims' and isinstance(arg.value, ast.Name)
                                      and isinstance(g.target.elts[1], ast.Name) and arg.value.id == g.target.elts[1].id)
                            ok_recv = (isinstance(recv, ast.Call) and dotted(recv.func) == 'set' and recv.args
                                       and flow.reaches(recv.args[0], lambda n: n is sc))
                            ok_if = ok_arg and ok_recv
                    ok_names = ok_it and ok_elt and ok_if
                ctx.check('R05.1', ok_names, "kept variables are those whose dims intersect the selector's dimensions", fi, rets[0],
                          construct=f"names = {norm_text(names)[:120] if names is not None else '?'}")

    # ------------------------------------------------------------------ selector_for_indexes
    with ctx.section('selector_for_indexes'):
        for fi in p.implementations(dimconv, 'selector_for_indexes'):
            flow = ctx.flow(fi)
            cfg = ctx.cfg(fi)
            idx_p = fi.params[1]
            raises = [n for n in walk_no_nested(fi.node) if isinstance(n, ast.Raise)]
            ok_empty = False
            ok_mixed = False
            for rs in raises:
                for st, inb in enclosing_ifs(fi, rs):
                    t = emptiness_test(flow, st.test)
                    if inb and t is not None and t[0] == 'empty' and flow.canon(t[1]) == ('param', idx_p):
                        ok_empty = True
                    tt = st.test
                    if inb and isinstance(tt, ast.Compare) and len(tt.ops) == 1 and isinstance(tt.ops[0], ast.Gt) \
                            and const_value(tt.comparators[0], None) == 1:
                        ll = flow.resolve(tt.left)
                        if isinstance(ll, ast.Call) and dotted(ll.func) == 'len' and ll.args:
                            s = flow.resolve(ll.args[0])
                            if isinstance(s, ast.Call) and dotted(s.func) == 'set':
                                ok_mixed = True
            from .common import guards as _g05

            def alternatives(e):
                """[(value, guards)] of the plain assignments that can reach the name e (the expression itself when it is not a name)."""
                if isinstance(e, ast.Name):
                    ds_ = flow.defs_of(e)
                    if ds_ and all(d.kind == 'assign' and d.value is not None and d.stmt is not None for d in ds_):
                        return [(d.value, _g05(fi, d.stmt)) for d in ds_]
                return [(e, [])]

            def is_empty_branch(g) -> bool:
                return (f"len({idx_p}) == 0", True) in g or (idx_p, False) in g or (f"len({idx_p}) > 0", False) in g
            # an empty request (every point missed) selects nothing; it is not an error
            empties = [n for n in walk_no_nested(fi.node) if isinstance(n, ast.Assign) and isinstance(n.value, ast.Call)
                       and callee(ctx, fi, n.value) in ('numpy.empty', 'numpy.zeros') and is_empty_branch(_g05(fi, n))]
            ok_empty_sel = False
            if len(empties) == 1 and not ok_empty:
                shp = flow.resolve(empties[0].value.args[0]) if empties[0].value.args else None
                dt = kwarg(empties[0].value, 'dtype')
                ok_empty_sel = (isinstance(shp, ast.Tuple) and len(shp.elts) == 2 and const_value(shp.elts[0], None) == 0
                                and isinstance(shp.elts[1], ast.Call) and dotted(shp.elts[1].func) == 'len'
                                and dt is not None and norm_text(dt) in ('int', 'numpy.int64', 'numpy.intp', 'numpy.int_'))
            all_dsets = [c for c in calls_in(fi) if (dotted(c.func) or '').endswith('Dataset') and c.args]
            # the empty request may instead have an exit of its own, judged with the datasets below
            own_exit = any(is_empty_branch(_g05(fi, c)) for c in all_dsets) and not empties and not ok_empty
            ctx.check('R05.1', ok_empty_sel or own_exit, "an empty request gives an empty selection: zero rows and one integer column per dimension "
                      "(extract_points passes on the points that hit the model, and under 'drop' / 'fill' there may be none)", fi,
                      empties[0] if empties else fi.node, construct=f"empty request: {norm_text(empties[0]) if empties else ('refused with an error' if ok_empty else 'not handled')}")
            ctx.check('R05.1', ok_mixed, "indexes of more than one grid kind are refused", fi, fi.node, construct='raise when len(set(grid_kinds)) > 1')
            ctx.need('R05.1', 1 <= len(all_dsets) <= 2 and all(any(flow.resolve(r.value) is c for c in all_dsets) for r in fi.returns()),
                     f"every exit returns an xarray.Dataset(...) built here (one for all requests, or one for the empty request and one for the rest)", fi)
            for one_ds in all_dsets:
              dsets = [one_ds]
              here = _g05(fi, one_ds)
              dc = flow.resolve(dsets[0].args[0])
              if is_empty_branch(here) and isinstance(dc, ast.DictComp) and len(dc.generators) == 1 and not dc.generators[0].ifs \
                      and isinstance(dc.generators[0].target, ast.Name) and isinstance(dc.key, ast.Name) and dc.key.id == dc.generators[0].target.id:
                  # the selection of nothing, written out: {dimension: (index dimension, <empty integer array>) for dimension in <dimensions of the default kind>}
                  v_ = dc.value
                  arr_ = flow.resolve(v_.elts[1]) if isinstance(v_, ast.Tuple) and len(v_.elts) == 2 else None
                  ok_e = isinstance(arr_, ast.Call) and callee(ctx, fi, arr_) in ('numpy.empty', 'numpy.zeros') and arr_.args \
                      and norm_text(arr_.args[0]) in ('0', '(0,)', '[0]') and kwarg(arr_, 'dtype') is not None and norm_text(kwarg(arr_, 'dtype')) in ('int', 'numpy.int64', 'numpy.intp', 'numpy.int_') \
                      and flow.canon(v_.elts[0]) in (('param', 'index_dimension'),) or (isinstance(v_, ast.Tuple) and flow.canon(v_.elts[0])[0] == 'phi' and ('param', 'index_dimension') in flow.canon(v_.elts[0])
                                                                                       and isinstance(arr_, ast.Call) and callee(ctx, fi, arr_) in ('numpy.empty', 'numpy.zeros')
                                                                                       and norm_text(arr_.args[0]) in ('0', '(0,)', '[0]') and kwarg(arr_, 'dtype') is not None
                                                                                       and norm_text(kwarg(arr_, 'dtype')) in ('int', 'numpy.int64', 'numpy.intp', 'numpy.int_'))
                  seq_ = flow.resolve(dc.generators[0].iter)
                  ok_k = isinstance(seq_, ast.Subscript) and flow.canon(seq_.value) == ('attr', ('param', 'self'), 'grid_dimensions') \
                      and norm_text(flow.resolve(seq_.slice)) == 'self.default_grid_kind'
                  ctx.check('R05.1', bool(ok_e) and ok_k, "an empty request gives an empty selection: an empty integer array for every dimension of the default grid kind", fi, one_ds,
                            construct=f"empty selection = {norm_text(dc)[:120]}")
                  continue
              ok_pair = False
              ok_dims = False
              ok_arr = False
              detail = norm_text(dc)
              if isinstance(dc, ast.DictComp) and len(dc.generators) == 1 and not dc.generators[0].ifs:
                  g = dc.generators[0]
                  it = flow.resolve(g.iter)
                  if isinstance(it, ast.Call) and dotted(it.func) == 'enumerate' and len(it.args) == 1 and not it.keywords \
                          and isinstance(g.target, ast.Tuple) and len(g.target.elts) == 2 \
                          and all(isinstance(e, ast.Name) for e in g.target.elts):
                      ivar, dvar = g.target.elts[0].id, g.target.elts[1].id
                      seq = flow.resolve(it.args[0])
                      ok_key = isinstance(dc.key, ast.Name) and dc.key.id == dvar
                      val = dc.value
                      col = None
                      if isinstance(val, ast.Tuple) and len(val.elts) == 2:
                          col = val.elts[1]
                          ok_dimname = flow.canon(val.elts[0]) in (('param', 'index_dimension'),) or \
                              (flow.canon(val.elts[0])[0] == 'phi' and ('param', 'index_dimension') in flow.canon(val.elts[0]))
                      else:
                          ok_dimname = False
                      ok_col = (isinstance(col, ast.Subscript) and isinstance(col.slice, ast.Tuple) and len(col.slice.elts) == 2
                                and isinstance(col.slice.elts[0], ast.Slice) and col.slice.elts[0].lower is None
                                and col.slice.elts[0].upper is None and col.slice.elts[0].step is None
                                and isinstance(col.slice.elts[1], ast.Name) and col.slice.elts[1].id == ivar)
                      ok_pair = ok_key and ok_col and ok_dimname
                      # the sequence is grid_dimensions[kind of the first index] (of the default kind for an empty request)
                      seqs = alternatives(it.args[0])
                      ok_dims = bool(seqs)
                      for sv, sg in seqs:
                          sv = flow.resolve(sv)
                          good = isinstance(sv, ast.Subscript) and flow.canon(sv.value) == ('attr', ('param', 'self'), 'grid_dimensions')
                          if good:
                              kinds = alternatives(sv.slice)
                              for kv, kg in kinds:
                                  kv = flow.resolve(kv)
                                  if is_empty_branch(sg + kg + here):
                                      good = good and norm_text(kv) == 'self.default_grid_kind'
                                  else:
                                      good = good and isinstance(kv, ast.Subscript) and const_value(kv.slice, None) == 0
                          ok_dims = ok_dims and good
                      # the index array: numpy.array(<tuples from unpack_index in request order>), or the empty selection
                      if ok_col:
                          arrs = alternatives(col.value)
                          ok_arr = bool(arrs)
                          for av, ag in arrs:
                              av = flow.resolve(av)
                              if is_empty_branch(ag + here):
                                  ok_arr = ok_arr and any(av is e_.value for e_ in empties)
                              else:
                                  ok_arr = ok_arr and isinstance(av, ast.Call) and callee(ctx, fi, av) in ('numpy.array', 'numpy.asarray') and bool(av.args) \
                                      and flow.reaches(av.args[0], lambda n: isinstance(n, ast.Call) and isinstance(n.func, ast.Attribute) and n.func.attr == 'unpack_index')
              ctx.check('R05.1', ok_pair, "selector[dimension i] = (index dimension, index_array[:, i]) from one enumerate", fi, dsets[0],
                        construct=f"selector = {detail[:130]}")
              ctx.check('R05.1', ok_dims, "the enumerated sequence is self.grid_dimensions[kind]", fi, dsets[0], construct='enumerate(self.grid_dimensions[kind])')
              ctx.check('R05.1', ok_arr, "the index array holds the unpacked index tuples", fi, dsets[0], construct='index_array = numpy.array(index tuples)')
              # isel counts negative positions from the end: a negative native index must be refused before it gets there
              ok_negative, neg_text = False, 'none'
              if ok_col:
                  arr_key = flow.canon(col.value)
                  for rs in raises:
                      for st, inb in enclosing_ifs(fi, rs):
                          if not inb:
                              continue
                          for cmp_ in ast.walk(st.test):
                              if isinstance(cmp_, ast.Compare) and len(cmp_.ops) == 1 and isinstance(cmp_.ops[0], ast.Lt) and const_value(cmp_.comparators[0], None) == 0:
                                  subj = cmp_.left
                                  if isinstance(subj, ast.Call) and isinstance(subj.func, ast.Attribute) and subj.func.attr == 'min' and not subj.args:
                                      subj = subj.func.value
                                  elif isinstance(subj, ast.Call) and callee(ctx, fi, subj) in ('numpy.min', 'numpy.amin') and subj.args:
                                      subj = subj.args[0]
                                  if flow.canon(subj) == arr_key:
                                      ok_negative, neg_text = True, norm_text(st.test)
              if is_empty_branch(here):
                  ok_negative, neg_text = True, 'not needed: the empty selection holds no index'
              ctx.check('R05.1', ok_negative, "a negative native index is refused before the selector is built (Dataset.isel would wrap it onto another cell)", fi, dsets[0],
                        construct=f"raise when {neg_text}")
            # request order: the unpack comprehension iterates `indexes` in order
            unpack_comp = [n for n in ast.walk(fi.node) if isinstance(n, (ast.ListComp, ast.GeneratorExp))
                           and isinstance(n.elt, ast.Call) and isinstance(n.elt.func, ast.Attribute) and n.elt.func.attr == 'unpack_index']
            ok_order = (len(unpack_comp) == 1 and len(unpack_comp[0].generators) == 1 and not unpack_comp[0].generators[0].ifs
                        and flow.canon(unpack_comp[0].generators[0].iter) == ('param', idx_p)
                        and isinstance(unpack_comp[0].generators[0].target, ast.Name)
                        and len(unpack_comp[0].elt.args) == 1 and isinstance(unpack_comp[0].elt.args[0], ast.Name)
                        and unpack_comp[0].elt.args[0].id == unpack_comp[0].generators[0].target.id)
            ctx.check('R05.1', ok_order, "every requested index is unpacked once, in request order", fi,
                      unpack_comp[0] if unpack_comp else fi.node)
            # kind used for the dimensions is the kind of the request
            kinds_ok = False
            for n in walk_no_nested(fi.node):
                if isinstance(n, ast.Assign) and isinstance(n.value, ast.Subscript) \
                        and flow.canon(n.value.value) == ('attr', ('param', 'self'), 'grid_dimensions') and not is_empty_branch(_g05(fi, n)):
                    for kv, kg in alternatives(n.value.slice):
                        k = flow.resolve(kv)
                        if isinstance(k, ast.Subscript) and const_value(k.slice, None) == 0 and not is_empty_branch(kg):
                            kinds_ok = True
            ctx.check('R05.1', kinds_ok, "dimensions come from the grid kind of the requested indexes", fi, fi.node,
                      construct='dimensions = self.grid_dimensions[grid_kinds[0]]')

    # ------------------------------------------------------------------ select_index / selector_for_index (R05.4)
    with ctx.section('select_index / selector_for_index (R05.4)'):
        for name, inner in (('select_index', 'select_indexes'), ('selector_for_index', 'selector_for_indexes')):
            for fi in p.implementations(base, name):
                flow = ctx.flow(fi)
                fresh = [c for c in calls_in(fi) if callee(ctx, fi, c) == f"{UTILS}.find_unused_dimension"]
                inner_calls = [c for c in method_calls(fi, inner) if flow.canon(c.func.value) == ('param', 'self')]
                ctx.need('R05.4', len(fresh) == 1 and len(inner_calls) == 1, f"expected find_unused_dimension and {inner} calls", fi)
                ic = inner_calls[0]
                lst = flow.resolve(ic.args[0]) if ic.args else None
                ok_one = isinstance(lst, ast.List) and len(lst.elts) == 1 and flow.canon(lst.elts[0]) == ('param', fi.params[1])
                idk = kwarg(ic, 'index_dimension')
                ok_dim = idk is not None and flow.resolve(idk) is fresh[0] and flow.canon(fresh[0].args[0]) == ('attr', ('param', 'self'), 'dataset')
                ctx.check('R05.4', ok_one and ok_dim, f"{inner}([index], index_dimension=<fresh name for this dataset>)", fi, ic)
                if name == 'select_index':
                    dg = kwarg(ic, 'drop_geometry')
                    ctx.check('R05.4', dg is not None and flow.canon(dg) == ('param', 'drop_geometry'), "drop_geometry is passed on", fi, ic,
                              construct=f"drop_geometry={norm_text(dg) if dg is not None else 'dropped'}")
                sq = [c for c in method_calls(fi, 'squeeze')]
                ok_sq = (len(sq) == 1 and flow.resolve(sq[0].func.value) is ic and kwarg(sq[0], 'dim') is not None
                         and flow.resolve(kwarg(sq[0], 'dim')) is fresh[0])
                ctx.check('R05.4', ok_sq, "exactly the fresh index dimension is squeezed out of the result", fi, sq[0] if sq else fi.node)
                for r in fi.returns():
                    ctx.check('R05.4', sq and flow.resolve(r.value) is sq[0], "the squeezed selection is returned", fi, r)

    # ------------------------------------------------------------------ drop_geometry / extract_vars
    with ctx.section('drop_geometry / extract_vars'):
        for fi in p.implementations(base, 'drop_geometry'):
            flow = ctx.flow(fi)
            drops = [c for c in method_calls(fi, 'drop_vars')]
            if fi.cls.qualname != base.qualname:
                # overrides must start from super().drop_geometry()
                sup = [c for c in method_calls(fi, 'drop_geometry') if isinstance(c.func.value, ast.Call) and dotted(c.func.value.func) == 'super']
                ctx.check('R05.1', len(sup) == 1, "override builds on super().drop_geometry()", fi, fi.node, construct='super().drop_geometry()')
                continue
            ok = (len(drops) == 1 and flow.canon(drops[0].func.value) == ('attr', ('param', 'self'), 'dataset') and drops[0].args
                  and flow.canon(drops[0].args[0]) == ('call', ('attr', ('param', 'self'), 'get_all_geometry_names'), (), ()))
            ctx.check('R05.1', ok, "drop_geometry drops exactly get_all_geometry_names() from the dataset", fi, drops[0] if drops else fi.node)
        ev = ctx.func(f"{UTILS}.extract_vars")
        flow = ctx.flow(ev)
        drops = [c for c in method_calls(ev, 'drop_vars')]
        ctx.need('R05.1', len(drops) == 1, f"expected one drop_vars call", ev)
        dl = flow.resolve(drops[0].args[0]) if drops[0].args else None
        ok = False
        if isinstance(dl, ast.ListComp) and len(dl.generators) == 1 and len(dl.generators[0].ifs) == 1:
            g = dl.generators[0]
            t = g.ifs[0]
            it = flow.resolve(g.iter)
            ok = (isinstance(t, ast.Compare) and isinstance(t.ops[0], ast.NotIn)
                  and norm_text(it) == f"{ev.params[0]}.data_vars"
                  and flow.reaches(t.comparators[0], lambda n: isinstance(n, ast.Name) and n.id == ev.params[1]
                                   and any(d.kind == 'param' for d in flow.defs_of(n))))
        ctx.check('R05.1', ok and flow.canon(drops[0].func.value) == ('param', ev.params[0]),
                  "extract_vars drops exactly the data variables not requested (coordinates are kept)", ev, drops[0])

        # what is kept beyond the request: the bounds variables that the kept variables and the coordinates name, and nothing else
        # (bounds of variables that are dropped - another grid's - would come through a selection at full size)
        from ..pattern import Matcher as _M5
        from .common import expand_locals as _x5
        keep = None
        if isinstance(dl, ast.ListComp) and dl.generators[0].ifs and isinstance(dl.generators[0].ifs[0], ast.Compare) and isinstance(dl.generators[0].ifs[0].comparators[0], ast.Name):
            keep = dl.generators[0].ifs[0].comparators[0].id
        grows = []
        for n in walk_no_nested(ev.node):
            if isinstance(n, ast.AugAssign) and isinstance(n.target, ast.Name) and n.target.id == keep:
                grows.append((n, n.value))
            elif isinstance(n, ast.Assign) and len(n.targets) == 1 and isinstance(n.targets[0], ast.Name) and n.targets[0].id == keep \
                    and isinstance(n.value, ast.BinOp) and isinstance(n.value.op, ast.BitOr):
                sides = [n.value.left, n.value.right]
                other = [x for x in sides if not (isinstance(x, ast.Name) and x.id == keep)]
                grows += [(n, x) for x in other]
            elif isinstance(n, ast.Call) and isinstance(n.func, ast.Attribute) and n.func.attr in ('update', 'add', 'union') and isinstance(n.func.value, ast.Name) \
                    and n.func.value.id == keep and n.args:
                grows.append((n, n.args[0]))
        ok_grow = keep is not None
        detail = []
        ds_ = ev.params[0]
        for site, extra in grows:
            e = flow.resolve(extra)
            mm = _M5(ctx, ev)
            good = False
            if isinstance(e, (ast.SetComp, ast.GeneratorExp, ast.ListComp)) and len(e.generators) == 1 and isinstance(e.generators[0].target, ast.Name):
                v_ = e.generators[0].target.id
                src = norm_text(_x5(flow, e.generators[0].iter, keep=[keep]))
                ifs = [norm_text(t) for t in e.generators[0].ifs]
                good = (norm_text(e.elt) == f"{ds_}[{v_}].attrs['bounds']" and ifs == [f"'bounds' in {ds_}[{v_}].attrs"]
                        and src in (f"{keep} | set({ds_}.coords.keys())", f"{keep} | set({ds_}.coords)", f"set({ds_}.coords.keys()) | {keep}", f"{keep}.union({ds_}.coords)",
                                    f"{keep}.union({ds_}.coords.keys())"))
            ok_grow = ok_grow and good
            detail.append(norm_text(e)[:90])
        ctx.check('R05.1', ok_grow, "beyond the request extract_vars keeps only the bounds variables named by the kept variables and by the coordinates "
                  "(not the bounds of variables it drops)", ev, grows[0][0] if grows else drops[0], construct=f"additions to the kept names: {detail or 'none'}")

    # ------------------------------------------------------------------ extract_points (R05.2)
    with ctx.section('extract_points (R05.2)'):
        ep = ctx.func(f"{PX}.extract_points")
        flow = ctx.flow(ep)
        pts = ep.params[1]
        lookups = [c for c in method_calls(ep, 'get_index_for_point')]
        ctx.need('R05.2', len(lookups) == 1, f"expected one get_index_for_point call", ep)
        lk = lookups[0]
        comp = None
        for n in ast.walk(ep.node):
            if isinstance(n, (ast.ListComp, ast.GeneratorExp)) and n.elt is lk:
                comp = n
        ok_lookup = (comp is not None and len(comp.generators) == 1 and not comp.generators[0].ifs
                     and flow.canon(comp.generators[0].iter) == ('param', pts)
                     and isinstance(comp.generators[0].target, ast.Name) and len(lk.args) == 1
                     and isinstance(lk.args[0], ast.Name) and lk.args[0].id == comp.generators[0].target.id)
        ctx.check('R05.2', ok_lookup, "one lookup per requested point, in request order", ep, comp or lk)
        recv_t = ctx.types(ep).type_of(lk.func.value)
        ctx.check('R05.2', recv_t == p.canonical(BASE) or (recv_t in p.classes and p.is_subclass(p.classes[recv_t], BASE)),
                  "the lookup is the dataset's own convention (dataset.ems)", ep, lk, construct=f"receiver type {recv_t}")
        # the name bound to the lookups
        idx_name = None
        for n in walk_no_nested(ep.node):
            if isinstance(n, ast.Assign) and comp is not None and any(x is comp for x in ast.walk(n.value)) and isinstance(n.targets[0], ast.Name):
                idx_name = n.targets[0]
                idx_assign = n
        ctx.need('R05.2', idx_name is not None, f"lookups are not bound to a name", ep)
        # find a Name load of that variable to take its canon
        loads = [n for n in ast.walk(ep.node) if isinstance(n, ast.Name) and n.id == idx_name.id and isinstance(n.ctx, ast.Load)]
        ctx.need('R05.2', loads, f"lookups never used", ep)
        idx_c = flow.canon(loads[0])
        # error branch
        raises = [n for n in walk_no_nested(ep.node) if isinstance(n, ast.Raise)]
        ok_err = False
        ok_err_guard = False
        for rs in raises:
            exc = rs.exc
            if isinstance(exc, ast.Call) and (dotted(exc.func) or '').endswith('NonIntersectingPoints'):
                iarg = kwarg(exc, 'indexes') or (exc.args[0] if exc.args else None)
                parg = kwarg(exc, 'points') or (exc.args[1] if len(exc.args) > 1 else None)
                if iarg is None or parg is None:
                    continue
                # the positions reported are those of the lookups that are None, however they are found
                ok_i = _lookup_positions(ctx, ep, flow, iarg, idx_c) == 'none'
                pl = flow.resolve(parg)
                ok_p = (isinstance(pl, ast.ListComp) and len(pl.generators) == 1 and not pl.generators[0].ifs
                        and flow.canon(pl.generators[0].iter) == flow.canon(iarg)
                        and isinstance(pl.elt, ast.Subscript) and flow.canon(pl.elt.value) == ('param', pts)
                        and isinstance(pl.elt.slice, ast.Name) and isinstance(pl.generators[0].target, ast.Name)
                        and pl.elt.slice.id == pl.generators[0].target.id)
                ok_err = ok_i and ok_p
                tests = [(flow, st, inb) for st, inb in enclosing_ifs(ep, rs)]
                has_policy = any(inb and isinstance(st.test, ast.Compare) and isinstance(st.test.ops[0], ast.Eq)
                                 and flow.canon(st.test.left) == ('param', 'missing_points')
                                 and const_value(st.test.comparators[0], None) == 'error' for _, st, inb in tests)
                has_nonempty = any(inb and (emptiness_test(flow, st.test) or ('', None))[0] == 'nonempty'
                                   and flow.canon((emptiness_test(flow, st.test))[1]) == flow.canon(iarg) for _, st, inb in tests)
                # ... or `<mask of the misses>.any()` / numpy.any(<mask>)
                from .common import path_conditions as _pc05
                for t_, pol_ in _pc05(ep, rs):
                    if pol_ and isinstance(t_, ast.Call) and isinstance(t_.func, ast.Attribute) and t_.func.attr == 'any' and not t_.args \
                            and _lookup_mask(ctx, ep, flow, t_.func.value, idx_c) == 'none':
                        has_nonempty = True
                    if pol_ and isinstance(t_, ast.Call) and callee(ctx, ep, t_) == 'numpy.any' and len(t_.args) == 1 and _lookup_mask(ctx, ep, flow, t_.args[0], idx_c) == 'none':
                        has_nonempty = True
                    # ... or "fewer lookups hit than were made": len(<the lookups that are not None>) < len(<lookups>)
                    if pol_ and isinstance(t_, ast.Compare) and len(t_.ops) == 1 and isinstance(t_.ops[0], (ast.Lt, ast.Gt, ast.NotEq)):
                        a_, b_ = t_.left, t_.comparators[0]
                        if isinstance(t_.ops[0], ast.Gt):
                            a_, b_ = b_, a_

                        def _len_of(e_):
                            e_ = flow.resolve(e_)
                            return e_.args[0] if isinstance(e_, ast.Call) and dotted(e_.func) == 'len' and len(e_.args) == 1 else None
                        for few, many in ((a_, b_), (b_, a_)) if isinstance(t_.ops[0], ast.NotEq) else ((a_, b_),):
                            fx, mx = _len_of(few), _len_of(many)
                            if fx is None or mx is None or flow.canon(mx) != idx_c:
                                continue
                            fx = flow.resolve(fx)
                            while isinstance(fx, ast.Call) and dotted(fx.func) in ('list', 'tuple') and len(fx.args) == 1:
                                fx = flow.resolve(fx.args[0])
                            if _lookup_positions(ctx, ep, flow, fx, idx_c) == 'notnone' or _none_filter(flow, fx, idx_c)[0]:
                                has_nonempty = True
                has_policy = has_policy or any(pol_ and isinstance(t_, ast.Compare) and isinstance(t_.ops[0], ast.Eq) and flow.canon(t_.left) == ('param', 'missing_points')
                                               and const_value(t_.comparators[0], None) == 'error' for t_, pol_ in _pc05(ep, rs))
                ok_err_guard = has_policy and has_nonempty
        ctx.check('R05.2', ok_err, "'error' reports exactly the positions whose lookup is None, and those points", ep,
                  raises[0] if raises else ep.node, construct='NonIntersectingPoints(indexes=flatnonzero(lookups == None), points=[points[i] for i in indexes])')
        ctx.check('R05.2', ok_err_guard, "the error is raised iff the policy is 'error' and at least one lookup missed", ep,
                  raises[0] if raises else ep.node, construct="raise guarded by missing_points == 'error' and len(out_of_bounds)")
        # selection and labels
        sel = [c for c in method_calls(ep, 'select_indexes')]
        ctx.need('R05.2', len(sel) == 1 and sel[0].args, f"expected one select_indexes call", ep)
        sl = flow.resolve(sel[0].args[0])
        while isinstance(sl, ast.Call) and dotted(sl.func) in ('list', 'tuple') and len(sl.args) == 1 and not sl.keywords:
            sl = flow.resolve(sl.args[0])       # a list made of the same items in the same order
        ok_f, tgt = _none_filter(flow, sl, idx_c)
        ok_elt = ok_f and isinstance(sl.elt, ast.Attribute) and sl.elt.attr == 'index' and isinstance(sl.elt.value, ast.Name) \
            and sl.elt.value.id == tgt[1].id
        if not ok_elt and isinstance(sl, (ast.ListComp, ast.GeneratorExp)) and len(sl.generators) == 1 and not sl.generators[0].ifs and isinstance(sl.generators[0].target, ast.Name):
            # [lookups[i].index for i in <positions of the lookups that are not None>]
            e_ = sl.elt
            ok_elt = (isinstance(e_, ast.Attribute) and e_.attr == 'index' and isinstance(e_.value, ast.Subscript) and flow.canon(e_.value.value) == idx_c
                      and norm_text(e_.value.slice) == sl.generators[0].target.id and _lookup_positions(ctx, ep, flow, sl.generators[0].iter, idx_c) == 'notnone')
        ctx.check('R05.2', bool(ok_elt), "select_indexes receives <item>.index for every lookup that is not None, in order", ep, sel[0],
                  construct=f"selected = {norm_text(sl)[:110]}")
        dg = kwarg(sel[0], 'drop_geometry')
        ctx.check('R05.2', dg is not None and const_value(dg, None) is True, "geometry variables are dropped from the point dataset", ep, sel[0],
                  construct=f"drop_geometry={norm_text(dg) if dg is not None else 'default'}")
        idk = kwarg(sel[0], 'index_dimension')
        pdc = flow.canon(idk) if idk is not None else None
        ctx.check('R05.2', pdc is not None and (pdc == ('param', 'point_dimension') or (pdc[0] == 'phi' and ('param', 'point_dimension') in pdc)),
                  "the point dimension is the caller's name (or a fresh one when none was given)", ep, sel[0],
                  construct=f"index_dimension={norm_text(idk) if idk is not None else 'dropped'}")
        assigns = [c for c in method_calls(ep, 'assign_coords')]
        ctx.need('R05.2', len(assigns) == 1 and assigns[0].args, f"expected one assign_coords call", ep)
        ac = flow.resolve(assigns[0].args[0])
        ok_lab = False
        detail = norm_text(ac)
        if isinstance(ac, ast.Dict) and len(ac.keys) == 1 and isinstance(ac.values[0], ast.Tuple) and len(ac.values[0].elts) == 2:
            labels = flow.resolve(ac.values[0].elts[1])
            ok_f2, tgt2 = _none_filter(flow, labels, idx_c)
            if ok_f2 and isinstance(tgt2[0], ast.Tuple) and isinstance(labels.elt, ast.Name) \
                    and isinstance(tgt2[0].elts[0], ast.Name) and labels.elt.id == tgt2[0].elts[0].id:
                ok_lab = flow.canon(ac.keys[0]) == pdc
            if not ok_lab and _lookup_positions(ctx, ep, flow, ac.values[0].elts[1], idx_c) == 'notnone':
                ok_lab = flow.canon(ac.keys[0]) == pdc
        ctx.check('R05.2', ok_lab, "the positional labels are the enumerate positions of the lookups that are not None (original positions)", ep, assigns[0],
                  construct=f"labels = {detail[:120]}")
        ctx.check('R05.2', flow.resolve(assigns[0].func.value) is sel[0], "labels are attached to that same selection", ep, assigns[0],
                  construct='point_ds.assign_coords on the select_indexes result')

    # ------------------------------------------------------------------ policy tables (R05.3)
    with ctx.section('policy tables (R05.3)'):
        sp = ctx.func(f"{BASE}.select_points")
        ed = ctx.func(f"{PX}.extract_dataframe")
        lit_sp = literal_annotation_values(param_annotation(sp, 'missing_points'))
        lit_ep = literal_annotation_values(param_annotation(ep, 'missing_points'))
        lit_ed = literal_annotation_values(param_annotation(ed, 'missing_points'))
        ctx.require(lit_sp is not None and lit_ep is not None and lit_ed is not None, "missing_points Literal annotations not found")
        ctx.check('R05.3', set(lit_sp) == set(lit_ep) == {'error', 'drop'}, "select_points and extract_points accept {'error','drop'}", ep, ep.node,
                  construct=f"select_points {sorted(lit_sp)} extract_points {sorted(lit_ep)}")
        ctx.check('R05.3', set(lit_ed) == {'error', 'drop', 'fill'}, "extract_dataframe accepts {'error','drop','fill'}", ed, ed.node,
                  construct=f"extract_dataframe {sorted(lit_ed)}")
        cli = ctx.func('emsarray.cli.commands.extract_points.Command.add_arguments')
        choices = None
        for c in calls_in(cli):
            if c.args and const_value(c.args[0], None) == '--missing-points':
                choices = literal_strings(kwarg(c, 'choices')) if kwarg(c, 'choices') is not None else None
                default = const_value(kwarg(c, 'default'), None) if kwarg(c, 'default') is not None else None
        ctx.check('R05.3', choices is not None and set(choices) == set(lit_ed) and default == 'error',
                  "--missing-points offers exactly the library's policies and defaults to 'error'", cli, cli.node,
                  construct=f"--missing-points choices {choices}")
        # select_points forwards to extract_points
        flow = ctx.flow(sp)
        fw = [c for c in calls_in(sp) if callee(ctx, sp, c) == f"{PX}.extract_points"]
        ok_fw = (len(fw) == 1 and len(fw[0].args) >= 2 and flow.canon(fw[0].args[0]) == ('attr', ('param', 'self'), 'dataset')
                 and flow.canon(fw[0].args[1]) == ('param', sp.params[1])
                 and kwarg(fw[0], 'missing_points') is not None and flow.canon(kwarg(fw[0], 'missing_points')) == ('param', 'missing_points'))
        ctx.check('R05.3', ok_fw, "select_points forwards dataset, points and policy unchanged", sp, fw[0] if fw else sp.node)
        # extract_dataframe
        flow = ctx.flow(ed)
        fw = [c for c in calls_in(ed) if callee(ctx, ed, c) == f"{PX}.extract_points"]
        ctx.need('R05.3', len(fw) == 1, f"expected one extract_points call", ed)
        # the two decisions (what extract_points is told, how the table is joined) are folded over the three policies:
        # a conditional expression, an if chain, a match statement or a look-up table all read the same
        from .common import Undecided, fold_function, names_deciding
        mp = kwarg(fw[0], 'missing_points')
        merges = [c for c in method_calls(ed, 'merge')]
        ctx.need('R05.3', len(merges) == 1, f"expected one merge call", ed)
        jn = kwarg(merges[0], 'join')
        table, why = {}, ''
        if mp is not None and jn is not None:
            deciding = names_deciding(ed, [mp, jn])
            for policy in ('error', 'drop', 'fill'):
                try:
                    kind_, vals = fold_function(ed, {'missing_points': policy}, only_names=deciding, want=[mp, jn])
                    table[policy] = tuple(vals)
                except Undecided as exc:
                    why = f"not understood: {exc}"
                    break
        ok_mp = len(table) == 3 and {k: v[0] for k, v in table.items()} == {'error': 'error', 'drop': 'drop', 'fill': 'drop'}
        ctx.check('R05.3', ok_mp, "'error' is forwarded as 'error'; 'drop' and 'fill' both drop the misses first", ed, fw[0],
                  construct=f"missing_points={norm_text(mp) if mp is not None else 'default'}: {dict((k, v[0]) for k, v in table.items()) or why}")
        ok_join = len(table) == 3 and {k: v[1] for k, v in table.items()} == {'error': 'inner', 'drop': 'inner', 'fill': 'outer'}
        ctx.check('R05.3', ok_join, "the merge with the input table is outer exactly for 'fill', inner otherwise", ed, merges[0],
                  construct=f"join={norm_text(jn) if jn is not None else 'default'}: {dict((k, v[1]) for k, v in table.items()) or why}")
        fv = kwarg(merges[0], 'fill_value')
        ctx.check('R05.3', fv is not None and flow.canon(fv) == ('param', 'fill_value'), "missing rows are filled with the caller's fill value", ed, merges[0],
                  construct=f"fill_value={norm_text(fv) if fv is not None else 'default'}")
        ctx.check('R05.3', flow.resolve(merges[0].func.value) is fw[0], "the extracted points are merged with the table (not the reverse)", ed, merges[0],
                  construct='point_dataset.merge(coord_dataset, ...)')
        # x is the first coordinate column, y the second
        ptc = [c for c in calls_in(ed) if callee(ctx, ed, c) == 'shapely.points']
        ok_xy = False
        if len(ptc) == 1 and ptc[0].args:
            a = flow.resolve(ptc[0].args[0])
            # numpy.c_[x, y] reads as numpy.column_stack((x, y)) (normalise_library_spellings)
            pair_ = None
            if isinstance(a, ast.Subscript) and (dotted(a.value) or '').endswith('.c_') and isinstance(a.slice, ast.Tuple) and len(a.slice.elts) == 2:
                pair_ = a.slice.elts
            elif isinstance(a, ast.Call) and callee(ctx, ed, a) == 'numpy.column_stack' and len(a.args) == 1 and isinstance(flow.resolve(a.args[0]), (ast.Tuple, ast.List)) and len(flow.resolve(a.args[0]).elts) == 2:
                pair_ = flow.resolve(a.args[0]).elts
            if pair_ is not None:
                cols = []
                for e in pair_:
                    if isinstance(e, ast.Subscript) and flow.canon(e.value) == ('param', ed.params[1]):
                        cols.append(flow.canon(e.slice))
                cc = ('param', 'coordinate_columns')
                ok_xy = cols == [('unpack', cc, (0,)), ('unpack', cc, (1,))]
        ctx.check('R05.3', ok_xy and flow.canon(fw[0].args[1]) == flow.canon(ptc[0]) if ptc else False,
                  "points are (first coordinate column, second coordinate column) of the table, row by row", ed, ptc[0] if ptc else ed.node)
        pdk = kwarg(fw[0], 'point_dimension')
        ctx.check('R05.3', pdk is not None and flow.canon(pdk) == ('param', 'point_dimension') and flow.canon(fw[0].args[0]) == ('param', ed.params[0]),
                  "dataset and point dimension are passed on unchanged", ed, fw[0], construct='extract_points(dataset, points, point_dimension=point_dimension, ...)')



    # ------------------------------------------------------------------ R05.3 promoted variables lose their integer encoding
    with ctx.section('R05.3 encoding of filled variables'):
        ed2 = ctx.func(f"{PX}.extract_dataframe")
        from .common import guards as _guards
        dels = []
        for n in ast.walk(ed2.node):
            tgt = None
            if isinstance(n, ast.Delete):
                tgt = [t for t in n.targets if isinstance(t, ast.Subscript) and const_value(t.slice, None) == 'dtype']
            elif isinstance(n, ast.Call) and isinstance(n.func, ast.Attribute) and n.func.attr == 'pop' and n.args and const_value(n.args[0], None) == 'dtype':
                tgt = [n.func]
            if tgt and 'encoding' in norm_text(tgt[0].value if isinstance(tgt[0], ast.Subscript) else tgt[0].value):
                dels.append(n)
        ok = False
        why = 'the source dtype encoding is kept'
        if len(dels) == 1:
            g = _guards(ed2, dels[0])
            texts = {t for t, pol in g if pol}
            fill_only = any(t in ("join == 'outer'", "missing_points == 'fill'") for t in texts)
            import re as _re5
            kinds = set()
            for t in texts:
                m_ = _re5.search(r"\.kind in (['\"])([a-zA-Z]+)\1", t)
                if m_:
                    kinds |= set(m_.group(2))
                if 'numpy.integer' in t:
                    kinds |= {'i', 'u'}
                if 'numpy.bool_' in t or 'bool)' in t:
                    kinds |= {'b'}
            promoted = any('numpy.floating' in t for t in texts) and {'i', 'u'} <= kinds
            keeps_fill = any("'_FillValue' in" in t and not pol for t, pol in g)
            # ... and under nothing else: a further conjunct leaves some promoted variable with its integer type on disk
            def _expl(t_, pol_):
                if pol_:
                    return (t_ in ("join == 'outer'", "missing_points == 'fill'") or 'numpy.floating' in t_ or '.kind in' in t_ or 'numpy.integer' in t_ or 'numpy.bool_' in t_
                            or ('dtype' in t_ and 'is not None' in t_) or ("'dtype' in" in t_))
                return ("'_FillValue' in" in t_ or "'missing_value' in" in t_ or ('dtype' in t_ and 'is None' in t_)
                        or (".get('_FillValue') is not None" in t_) or (".get('missing_value') is not None" in t_))
            extra_ = sorted(t_ for t_, pol_ in g if not _expl(t_, pol_))
            # the type tested is the one that is dropped: encoding['dtype'], under that key
            ed2flow = ctx.flow(ed2)
            reads_dtype = any(isinstance(n_, ast.Call) and (dotted(n_.func) or '').endswith('numpy.dtype') and n_.args
                              and _re5.search(r"encoding\w*(\.get\('dtype'\)|\['dtype'\])", norm_text(ed2flow.resolve(n_.args[0])))
                              for n_ in ast.walk(ed2.node))
            if not reads_dtype:
                extra_ = extra_ + ["the on-disk type is not read from encoding['dtype']"]
            ok = fill_only and promoted and keeps_fill and not extra_
            why = f"del encoding['dtype'] under {sorted(texts)}" + (f"; further conditions {extra_[:2]}" if extra_ else '')
        ctx.check('R05.3', ok, "with 'fill', variables promoted to floating point to hold the misses do not keep an integer on-disk dtype without a fill value (saving would turn the missing values into numbers)", ed2,
                  dels[0] if dels else ed2.node, construct=f"extract_dataframe: {why}")
        ctx.check('R05.3', ok and 'b' in kinds, "the same holds for boolean variables: a kept encoding['dtype'] = bool saves the missing value of a missed point as True", ed2,
                  dels[0] if dels else ed2.node, construct=f"stale on-disk kinds dropped: {sorted(kinds)}")

        # every variable that was re-indexed can have been promoted: integer coordinates on the cell dimensions (region numbers, cell ids) as much as data variables
        loops5 = [n for n in walk_no_nested(ed2.node) if isinstance(n, ast.For) and dels and any(x is dels[0] for x in ast.walk(n))]
        it5 = norm_text(loops5[-1].iter) if loops5 else '?'
        import re as _re5b
        ok_all = bool(_re5b.fullmatch(r"\w+\.variables(\.values\(\)|\.items\(\))?", it5))
        ctx.check('R05.3', ok_all, "all variables of the extracted dataset are looked at, coordinates included (an integer coordinate on the cell dimensions is filled with NaN like any data variable)", ed2,
                  loops5[-1] if loops5 else ed2.node, construct=f"stale encodings dropped for: {it5}")

    # ------------------------------------------------------------------ R05.6 table rows by position
    with ctx.section('R05.6'):
        # the conversion lives in a private helper today; written out in extract_dataframe itself it is judged there
        ed_ = ctx.func(f"{PX}.extract_dataframe")
        eflow = ctx.flow(ed_)
        helper = ctx.p.functions.get(f"{PX}._dataframe_to_dataset")
        if helper is not None:
            d2d = ctx.func(f"{PX}._dataframe_to_dataset")
            frame_p = d2d.params[0]
        else:
            d2d, frame_p = ed_, ed_.params[1]
        dflow = ctx.flow(d2d)
        tox = [c for c in method_calls(d2d, 'to_xarray')]
        ctx.need('R05.6', len(tox) == 1, "the table is converted with DataFrame.to_xarray(), once", d2d)
        positional = False
        how = 'the index of the caller\'s table is kept'
        for n, _ in dflow.expand(tox[0].func.value):
            if isinstance(n, ast.Call) and isinstance(n.func, ast.Attribute) and n.func.attr == 'reset_index':
                drop = kwarg(n, 'drop')
                if drop is not None and const_value(drop, None) is True and dflow.canon(n.func.value) == ('param', frame_p):
                    from .common import path_conditions as _pcs
                    conds_ = [norm_text(t) for t, _ in _pcs(d2d, n)]
                    if conds_:
                        how = f"reset_index(drop=True) only under {conds_} (a RangeIndex need not start at 0 or have step 1)"
                    else:
                        positional, how = True, 'reset_index(drop=True)'
        for st in walk_no_nested(d2d.node):
            # frame.index = pandas.RangeIndex(len(frame)) / numpy.arange(len(frame))
            if isinstance(st, ast.Assign) and isinstance(st.targets[0], ast.Attribute) and st.targets[0].attr == 'index' and isinstance(st.value, ast.Call) \
                    and (callee(ctx, d2d, st.value) or '') in ('pandas.RangeIndex', 'numpy.arange') and len(st.value.args) == 1 \
                    and isinstance(st.value.args[0], ast.Call) and dotted(st.value.args[0].func) == 'len':
                positional, how = True, norm_text(st)
        ctx.check('R05.6', positional, "the table's own index is discarded in favour of row positions before conversion", d2d, tox[0], construct=f"{d2d.name}: {how}")
        if helper is not None:
            # the rows become a dimension of the name asked for: the index is given that name before the conversion
            dcfg = ctx.cfg(d2d)
            named_ = [st for st in walk_no_nested(d2d.node) if isinstance(st, ast.Assign) and norm_text(st.targets[0]).endswith('.index.name')
                      and dflow.canon(st.value) == ('param', 'dimension_name')]
            renamed_ = [c for c in calls_in(d2d) if isinstance(c.func, ast.Attribute) and c.func.attr in ('rename_axis', 'rename', 'rename_dims', 'swap_dims')
                        and 'dimension_name' in norm_text(c)]
            from ..cfg import stmt_of as _st
            ok_n = (len(named_) == 1 and dcfg.dominates(named_[0], _st(d2d, tox[0]))) or bool(renamed_)
            ctx.check('R05.6', ok_n, "the rows of the table become the dimension the caller asked for: the index is named `dimension_name` before it is converted", d2d,
                      named_[0] if named_ else tox[0], construct=f"{d2d.name}: {norm_text(named_[0]) if named_ else (norm_text(renamed_[0])[:60] if renamed_ else 'the index keeps its own name')}")
        mg_ = [c for c in method_calls(ed_, 'merge')]
        if helper is not None:
            conv = [c for c in calls_in(ed_) if callee(ctx, ed_, c) == f"{PX}._dataframe_to_dataset"]
            ok = (len(conv) == 1 and len(mg_) == 1 and conv[0].args and eflow.canon(conv[0].args[0]) == ('param', ed_.params[1])
                  and mg_[0].args and eflow.resolve(mg_[0].args[0]) is conv[0]
                  and kwarg(conv[0], 'dimension_name') is not None and eflow.canon(kwarg(conv[0], 'dimension_name')) == ('param', 'point_dimension'))
        else:
            named = [st for st in walk_no_nested(ed_.node) if isinstance(st, ast.Assign) and norm_text(st.targets[0]).endswith('.index.name')
                     and eflow.canon(st.value) == ('param', 'point_dimension')]
            ok = len(mg_) == 1 and bool(mg_[0].args) and eflow.resolve(mg_[0].args[0]) is tox[0] and len(named) == 1
        ctx.check('R05.6', ok, "extract_dataframe merges exactly that positional table, on the point dimension", ed_, mg_[0] if mg_ else ed_.node)


# --------------------------------------------------------------------------- checker self-test
from ..variants import V  # noqa: E402

_B = 'src/emsarray/conventions/_base.py'
_P = 'src/emsarray/operations/point_extraction.py'
VARIANTS = [
    V('C05', 'table-rows-keep-their-own-dimension-name', 'src/emsarray/operations/point_extraction.py', "    dataframe.index.name = dimension_name\n", "", 'R05.6'),
    V('C05', 'promoted-type-read-under-another-key', 'src/emsarray/operations/point_extraction.py', "            encoded_dtype = variable.encoding.get('dtype')\n", "            encoded_dtype = variable.encoding.get('dtyp')\n", 'R05.3'),
    V('C05', 'promoted-kept-only-with-missing-value', 'src/emsarray/operations/point_extraction.py', "                and 'missing_value' not in variable.encoding\n", "                and 'missing_value' in variable.encoding\n", 'R05.3'),
    V('C05', 'custom-point-dimension-discarded', 'src/emsarray/conventions/_base.py', "        if point_dimension is None:\n            point_dimension = utils.find_unused_dimension(self.dataset, 'point')", "        if point_dimension is not None:\n            point_dimension = utils.find_unused_dimension(self.dataset, 'point')", 'R05.9'),
    V('C05', 'select-points-policy-not-forwarded', 'src/emsarray/conventions/_base.py', "self.dataset, points, point_dimension=point_dimension, missing_points=missing_points)", "self.dataset, points, point_dimension=point_dimension)", 'R05.9'),
    V('C05', 'filled-integers-keep-dtype', 'src/emsarray/operations/point_extraction.py', "                del variable.encoding['dtype']", "                pass", 'R05.3'),
    V('C05', 'stale-encoding-of-coordinates-kept', 'src/emsarray/operations/point_extraction.py', "        for variable in point_dataset.variables.values():", "        for variable in point_dataset.data_vars.values():", 'R05.3'),
    V('C05', 'table-keeps-own-index', 'src/emsarray/operations/point_extraction.py', "    dataframe = dataframe.reset_index(drop=True)", "    dataframe = dataframe.copy()", 'R05.6'),
    V('C05', 'sel-for-isel', _B, "        return dataset.isel(selector)", "        return dataset.sel(selector)", 'R05.1'),
    V('C05', 'column-reversed', _B, "            dimension: (index_dimension, index_array[:, i])", "            dimension: (index_dimension, index_array[:, -1 - i])", 'R05.1'),
    V('C05', 'dims-reversed', _B, "            for i, dimension in enumerate(dimensions)\n        })", "            for i, dimension in enumerate(reversed(dimensions))\n        })", 'R05.1'),
    V('C05', 'fill-keeps-boolean-encoding', 'src/emsarray/operations/point_extraction.py', "                and numpy.dtype(encoded_dtype).kind in 'iub'", "                and numpy.dtype(encoded_dtype).kind in 'iu'", 'R05.3'),
    V('C05', 'empty-request-refused', _B, "            grid_kind = self.default_grid_kind\n            dimensions = self.grid_dimensions[grid_kind]\n            index_array = numpy.empty((0, len(dimensions)), dtype=int)\n", "            raise ValueError(\"Need at least one index to select\")\n", 'R05.1'),
    V('C05', 'empty-request-one-phantom-row', _B, "            index_array = numpy.empty((0, len(dimensions)), dtype=int)", "            index_array = numpy.zeros((1, len(dimensions)), dtype=int)", 'R05.1'),
    V('C05', 'empty-request-float-indexes', _B, "            index_array = numpy.empty((0, len(dimensions)), dtype=int)", "            index_array = numpy.empty((0, len(dimensions)))", 'R05.1'),
    V('C05', 'negative-index-wraps', _B, "        if (index_array < 0).any():\n            raise ValueError(\"Indexes must not be negative\")\n", "", ('R05.1',)),
    V('C05', 'negative-check-on-other-array', _B, "        if (index_array < 0).any():", "        if (numpy.array(grid_kinds == 0) < 0).any():", ('R05.1',)),
    V('C05', 'benign-negative-check-min-form', _B, "        if (index_array < 0).any():", "        if index_array.min() < 0:", None),
    V('C05', 'dedupe-requests', _B, "        selector = self.selector_for_indexes(indexes, index_dimension=index_dimension)", "        selector = self.selector_for_indexes(sorted(set(indexes)), index_dimension=index_dimension)", 'R05.1'),
    V('C05', 'keep-geometry-always', _B, "        if drop_geometry:\n            dataset = self.drop_geometry()\n        else:\n            dataset = self.dataset\n", "        dataset = self.dataset\n", 'R05.1'),
    V('C05', 'labels-renumbered', _P, "    point_indexes = [i for i, index in enumerate(indexes) if index is not None]", "    point_indexes = list(range(sum(1 for index in indexes if index is not None)))", 'R05.2'),
    V('C05', 'labels-filter-differs', _P, "    point_indexes = [i for i, index in enumerate(indexes) if index is not None]", "    point_indexes = [i for i, index in enumerate(indexes) if index]", 'R05.2'),
    V('C05', 'error-reports-hits', _P, "numpy.flatnonzero(numpy.equal(indexes, None))", "numpy.flatnonzero(numpy.not_equal(indexes, None))", 'R05.2'),
    V('C05', 'error-always-when-policy', _P, "        if len(out_of_bounds):\n            raise NonIntersectingPoints(\n                indexes=out_of_bounds,\n                points=[points[i] for i in out_of_bounds])", "        raise NonIntersectingPoints(\n            indexes=out_of_bounds,\n            points=[points[i] for i in out_of_bounds])", 'R05.2'),
    V('C05', 'fill-inner', _P, "'outer' if missing_points == 'fill' else 'inner'", "'outer' if missing_points == 'drop' else 'inner'", 'R05.3'),
    V('C05', 'fill-forwarded-as-error', _P, "missing_points='error' if missing_points == 'error' else 'drop')", "missing_points='drop' if missing_points == 'drop' else 'error')", 'R05.3'),
    V('C05', 'lat-lon-swapped', _P, "numpy.c_[dataframe[lon_coord], dataframe[lat_coord]]", "numpy.c_[dataframe[lat_coord], dataframe[lon_coord]]", 'R05.3'),
    V('C05', 'squeeze-all', _B, "        dataset = self.select_indexes([index], index_dimension=index_dimension, drop_geometry=drop_geometry)\n        dataset = dataset.squeeze(dim=index_dimension, drop=False)", "        dataset = self.select_indexes([index], index_dimension=index_dimension, drop_geometry=drop_geometry)\n        dataset = dataset.squeeze(drop=False)", 'R05.4'),
    V('C05', 'cli-choice-missing', 'src/emsarray/cli/commands/extract_points.py', "choices=['error', 'drop', 'fill'],", "choices=['error', 'drop'],", 'R05.3'),
    V('C05', 'lookup-reversed', _P, "    indexes = numpy.array([convention.get_index_for_point(point) for point in points])", "    indexes = numpy.array([convention.get_index_for_point(point) for point in reversed(points)])", 'R05.2'),
    # benign
    V('C05', 'benign-rename', _P, "    point_indexes = [i for i, index in enumerate(indexes) if index is not None]", "    point_indexes = [position for position, item in enumerate(indexes) if item is not None]", None),
]
