"""C20 - command line tools compute exactly what the library computes."""
from __future__ import annotations

import ast

from .. import relang
from ..model import const_value, dotted, kwarg, norm_text, walk_no_nested
from ..report import Context
from .common import arg_or_kw, calls_in, callee, enclosing_ifs, is_none, literal_strings, method_calls

CU = 'emsarray.cli.utils'
CMDS = 'emsarray.cli.commands'


def run(ctx: Context) -> None:
    p = ctx.p
    ctx.rule('R20.1', "the bounds grammar is exact: four captured numbers separated by commas (optional spaces), matched against the whole string, converted in order to box(min x, min y, max x, max y)", floor=6)
    ctx.rule('R20.2', "geometry_argument tries bounds, then JSON, then an existing .json/.geojson file, and every failure raises ArgumentTypeError (no silent partial parse)", floor=5)
    ctx.rule('R20.3', "every error handler of nice_console_errors ends the process with a non-zero status; the generic handler exists; commands run inside it", floor=6)
    ctx.rule('R20.4', "tables agree: format writers = --format choices minus 'auto' = range of guess_format, each naming the library writer of that format; every public module of cli.commands exports a Command", floor=7)
    ctx.rule('R20.5', "handlers are thin: the library entry point receives the parsed options unmodified and its result is written by the library's own writer; NonIntersectingPoints becomes a CommandException; nothing can fail after the output was written", floor=10)
    ctx.rule('R20.6', "a point outside the model is refused under 'error' wherever it is in the table: the refusal is decided by the number of misses, and the command hands the policy through (facts shared with C05 R05.2 / R05.3)", floor=10)
    from . import c05 as _c05
    from .common import share_obligations as _share
    _share(ctx, _c05, {'R05.2', 'R05.3'}, 'R20.6')
    ctx.rule('R20.7', "a failing command always prints its message (also with --silent); the time variable whose units the commands rewrite is one the rewriting can read (facts shared with C17 R17.5)", floor=4)
    from . import infra as _infra
    _infra.silent_still_reports_errors(ctx, 'R20.7')
    from . import c17 as _c17
    from .common import share_obligations as _share17
    _share17(ctx, _c17, {'R17.5'}, 'R20.7')
    ctx.assume("argparse calls the `type=` callable on the raw argument text and turns ArgumentTypeError into exit status 2")
    ctx.assume("NOT decided: equality of output file content with the library result (I/O at run time)")

    mod = p.module(CU)
    bre = mod.assigns.get('bounds_re')
    ctx.require(bre is not None, "cli.utils.bounds_re not found")
    pattern = relang.const_str(mod, bre)
    ctx.require(isinstance(pattern, str), "cli.utils.bounds_re is not a statically known pattern")
    ga = ctx.func(f"{CU}.geometry_argument")
    ba = ctx.func(f"{CU}.bounds_argument")
    ngroups = relang.group_count(pattern)
    seps = relang.describe_separators(pattern)
    ctx.check('R20.1', ngroups == 4, "the pattern captures exactly four numbers", ga, bre, construct=f"bounds_re has {ngroups} capture groups")
    ctx.check('R20.1', seps == ['\\s*,\\s*'] * 3, "consecutive numbers are separated by one comma with optional spaces", ga, bre,
              construct=f"separators {seps}")
    flags = relang.compile_flags(bre)
    ctx.check('R20.1', flags in ('', None), "no regex flags alter the grammar", ga, bre, construct=f"flags {flags!r}")
    anchored_end = relang.ends_anchored(pattern)
    anchored_start = relang.starts_anchored(pattern)
    uses = []
    for fi in p.functions.values():
        if not fi.qualname.startswith('emsarray.') or fi.parent is not None:
            continue
        for c in calls_in(fi, nested=True):
            if isinstance(c.func, ast.Attribute) and p.qualify(c.func.value, fi) == f"{CU}.bounds_re":
                uses.append((fi, c))
    ctx.require(len(uses) >= 2, "fewer than two uses of bounds_re found")
    for fi, c in uses:
        m = c.func.attr
        ok = m == 'fullmatch' or (m == 'match' and anchored_end) or (m == 'search' and anchored_end and anchored_start)
        ctx.check('R20.1', ok, "the whole argument must match (fullmatch, or an end-anchored pattern)", fi, c,
                  construct=f"bounds_re.{m}(...) with pattern end-anchored={anchored_end}")
        flow = ctx.flow(fi)
        ctx.check('R20.1', len(c.args) >= 1 and flow.canon(c.args[0]) == ('param', fi.params[0]) and len(c.args) == 1,
                  "the text matched is the raw argument", fi, c, construct=f"matched text {norm_text(c.args[0]) if c.args else '?'}")
    # conversion: box(*map(float, match.groups()))
    for fi in (ga, ba):
        flow = ctx.flow(fi)
        boxes = [c for c in calls_in(fi) if (callee(ctx, fi, c) or '').endswith('shapely.geometry.box')]
        ok = False
        from .common import facts as _facts20
        for b in boxes:
            v = None
            if len(b.args) == 1 and isinstance(b.args[0], ast.Starred):
                v = flow.resolve(b.args[0].value)
            elif len(b.args) == 4 and all(isinstance(a, ast.Name) for a in b.args) and not b.keywords:
                # the four numbers by name: unpacked from the same map(float, groups), passed on in that order
                order = [a.id for a in b.args]
                unpack = [st for st in walk_no_nested(fi.node) if isinstance(st, ast.Assign) and len(st.targets) == 1 and isinstance(st.targets[0], ast.Tuple)
                          and [norm_text(e) for e in st.targets[0].elts] == order]
                stores = [n for n in ast.walk(fi.node) if isinstance(n, ast.Name) and isinstance(n.ctx, ast.Store) and n.id in order]
                if len(unpack) == 1 and len(stores) == 4 and len(set(order)) == 4:
                    v = flow.resolve(unpack[0].value)
            g = None
            if isinstance(v, ast.Call) and dotted(v.func) == 'map' and len(v.args) == 2 and dotted(v.args[0]) == 'float':
                g = flow.resolve(v.args[1])
            elif isinstance(v, (ast.ListComp, ast.GeneratorExp)) and len(v.generators) == 1 and not v.generators[0].ifs and isinstance(v.elt, ast.Call) \
                    and dotted(v.elt.func) == 'float' and len(v.elt.args) == 1 and norm_text(v.elt.args[0]) == norm_text(v.generators[0].target):
                # (`*map(float, groups)` reads as `*[float(x) for x in groups]`)
                g = flow.resolve(v.generators[0].iter)
            if g is not None:
                if isinstance(g, ast.Call) and isinstance(g.func, ast.Attribute) and g.func.attr == 'groups' and not g.args:
                    m = flow.resolve(g.func.value)
                    ok = any(m is u for f2, u in uses if f2 is fi)
                    ok = ok and any(t.endswith(' is None') and not pol for t, pol in _facts20(ctx, fi, b, expand=False))
        ctx.check('R20.1', ok, "on a match, all four groups become box(*map(float, groups)) in order", fi, boxes[0] if boxes else fi.node,
                  construct=f"{fi.short}: " + (norm_text(boxes[0]) if boxes else 'no box() call'))

    # ---- R20.1 the word reaches the grammar at all
    with ctx.section('R20.1 argparse'):
        import re as _re20
        n_pos = 0
        for fi in p.functions.values():
            if fi.name != 'add_arguments' or not fi.qualname.startswith('emsarray.cli.'):
                continue
            for c in calls_in(fi):
                if not (isinstance(c.func, ast.Attribute) and c.func.attr == 'add_argument' and c.args):
                    continue
                t = kwarg(c, 'type')
                first = const_value(c.args[0], None)
                if t is None or not isinstance(first, str) or first.startswith('-'):
                    continue
                if (callee(ctx, fi, ast.Call(func=t, args=[], keywords=[])) or p.qualify(t, fi) or '') not in (f"{CU}.geometry_argument", f"{CU}.bounds_argument"):
                    continue
                n_pos += 1
                # argparse reads a word starting with '-' as an option unless parser._negative_number_matcher matches it
                sets = [n for n in walk_no_nested(fi.node) if isinstance(n, ast.Assign) and isinstance(n.targets[0], ast.Attribute)
                        and n.targets[0].attr == '_negative_number_matcher' and norm_text(n.targets[0].value) == norm_text(c.func.value) and n.lineno < c.lineno]
                ok, why = False, 'argparse default: only a word that is one whole negative number is an argument'
                if len(sets) == 1 and isinstance(sets[0].value, ast.Call) and callee(ctx, fi, sets[0].value) == 're.compile' and sets[0].value.args:
                    pat = const_value(sets[0].value.args[0], None)
                    if isinstance(pat, str):
                        try:
                            rx = _re20.compile(pat)
                            must = ['-10,50,5,60', '-1.5,-8,3,2', '-.5,-8,3,2', '-180,-90,180,90', '-1', '-0.25']
                            must_not = ['--work_dir', '-v', '-h', '--help', '-f', '-']
                            bad = [w for w in must if not rx.match(w)] + [w for w in must_not if rx.match(w)]
                            ok, why = not bad, (f"matcher {pat!r} folded over {len(must) + len(must_not)} words" if not bad else f"matcher {pat!r} wrong for {bad}")
                        except _re20.error as exc:
                            why = f"matcher does not compile: {exc}"
                ctx.check('R20.1', ok, "a bounds word that starts with a negative number ('-10,50,5,60': any region west of Greenwich or south of the equator) reaches the bounds grammar: "
                          "the parser is told that such words are arguments, while option flags stay options", fi, c, construct=why)
        ctx.need('R20.1', n_pos >= 1, "a command takes a geometry as a positional argument", ga)

    # ---- R20.2
    with ctx.section('R20.2'):
        for fi in (ga, ba):
            cfg = ctx.cfg(fi)
            flow = ctx.flow(fi)
            exits = cfg.exits()
            falls = [n for k, n in exits if k == 'fall']
            raises = [n for k, n in exits if k == 'raise']
            bad_raise = [r for r in raises if not (isinstance(r.exc, ast.Call) and (dotted(r.exc.func) or '').endswith('ArgumentTypeError'))]
            for k, n in exits:
                if k == 'return':
                    v = flow.resolve(n.value) if n.value is not None else None
                    if not (isinstance(v, ast.Call) and (callee(ctx, fi, v) or '').rsplit('.', 1)[-1] in ('box', 'shape')):
                        falls.append(n)
            ctx.check('R20.2', not falls and not bad_raise and raises, "every exit is a parsed geometry or an ArgumentTypeError", fi,
                      (falls + bad_raise + [fi.node])[0],
                      construct=f"{fi.short}: {len(falls)} exit(s) without a geometry, {len(bad_raise)} raise(s) of another type, {len(raises)} raise(s)")
        flow = ctx.flow(ga)
        cfg = ctx.cfg(ga)
        bounds_use = [u for f2, u in uses if f2 is ga]
        loads = [c for c in calls_in(ga) if callee(ctx, ga, c) == 'json.loads']
        exists = [c for c in method_calls(ga, 'exists')]
        ok_order = False
        if bounds_use and loads and exists:
            from ..cfg import stmt_of
            s_b, s_j, s_e = stmt_of(ga, bounds_use[0]), stmt_of(ga, loads[0]), stmt_of(ga, exists[0])
            ok_order = (s_b.lineno < s_j.lineno < s_e.lineno and cfg.dominates(s_b, s_j))
        ctx.check('R20.2', ok_order, "bounds are tried first, then a JSON string, then a path", ga, loads[0] if loads else ga.node,
                  construct='order: bounds_re -> json.loads -> Path.exists')
        ok_json_arg = bool(loads) and flow.canon(loads[0].args[0]) == ('param', ga.params[0])
        shapes = [c for c in calls_in(ga) if (callee(ctx, ga, c) or '').endswith('shapely.geometry.shape')]
        ctx.check('R20.2', ok_json_arg and len(shapes) == 2, "the JSON text is the raw argument and is turned into a geometry by shapely.geometry.shape", ga,
                  loads[0] if loads else ga.node)
        ok_file = False
        for c in shapes:
            a = flow.resolve(c.args[0]) if c.args else None
            reads_file = isinstance(a, ast.Call) and callee(ctx, ga, a) == 'json.load'
            if isinstance(a, ast.Call) and callee(ctx, ga, a) == 'json.loads' and len(a.args) == 1:
                # json.loads(<path>.read_text()): the same file, read in one go
                src_ = flow.resolve(a.args[0])
                reads_file = isinstance(src_, ast.Call) and isinstance(src_.func, ast.Attribute) and src_.func.attr == 'read_text' \
                    and flow.reaches(src_.func.value, lambda n: isinstance(n, ast.Call) and (dotted(n.func) or '').endswith('Path'))
            if reads_file:
                from .common import facts as _facts20b
                suffix = any(inb and 'suffix in' in t and "'.geojson'" in t and "'.json'" in t for t, inb in _facts20b(ctx, ga, c))
                ok_file = suffix
        nx = [n for n in walk_no_nested(ga.node) if isinstance(n, ast.If) and norm_text(n.test).startswith('not ') and 'exists()' in norm_text(n.test)
              and any(isinstance(s, ast.Raise) for s in n.body)]
        ctx.check('R20.2', ok_file and len(nx) == 1, "a file is read only if it exists and has a .json/.geojson suffix; otherwise an error", ga,
                  nx[0] if nx else ga.node, construct='if not path.exists(): raise ...; if suffix in {.geojson,.json}: shape(json.load(f)) else: raise')

    # ---- R20.3
    with ctx.section('R20.3'):
        nc = ctx.func(f"{CU}.nice_console_errors")
        tries = [n for n in walk_no_nested(nc.node) if isinstance(n, ast.Try)]
        ctx.need('R20.3', len(tries) == 1 and any(isinstance(s, ast.Expr) and isinstance(s.value, ast.Yield) for s in tries[0].body),
                 "nice_console_errors wraps its yield in one try", nc)
        handlers = tries[0].handlers
        names = []
        for h in handlers:
            nm = 'BaseException' if h.type is None else norm_text(h.type)
            names.append(nm)
            last = h.body[-1] if h.body else None
            ok = False
            detail = 'no sys.exit at the end of the handler'
            if isinstance(last, ast.Expr) and isinstance(last.value, ast.Call) and (dotted(last.value.func) in ('sys.exit', 'exit', 'os._exit')
                                                                                      or dotted(last.value.func) == 'SystemExit'):
                arg = last.value.args[0] if last.value.args else None
                v = const_value(arg, None) if arg is not None else None
                if isinstance(v, int) and not isinstance(v, bool) and v != 0:
                    ok = True
                    detail = f"exit({v})"
                elif arg is not None and isinstance(arg, ast.Attribute) and arg.attr == 'code' and isinstance(arg.value, ast.Name) and arg.value.id == h.name:
                    ok = True
                    detail = 'exit(err.code)'
                else:
                    detail = f"exit({norm_text(arg) if arg is not None else ''})"
            elif isinstance(last, ast.Raise) and isinstance(last.exc, ast.Call) and dotted(last.exc.func) == 'SystemExit':
                v = const_value(last.exc.args[0], None) if last.exc.args else None
                ok = isinstance(v, int) and v != 0
                detail = f"raise SystemExit({v})"
            ctx.check('R20.3', ok, "the handler ends with a non-zero exit status", nc, h, construct=f"except {nm}: ... {detail}")
        ctx.check('R20.3', 'Exception' in names and 'CommandException' in names, "user-facing and unexpected errors are both handled", nc, tries[0],
                  construct=f"handlers {names}")
        ce = p.cls('emsarray.cli.exceptions.CommandException')
        init = ce.methods.get('__init__')
        ok_code = False
        if init is not None:
            from .common import param_default
            d = param_default(init, 'code')
            v = const_value(d, None) if d is not None else None
            ok_code = isinstance(v, int) and v != 0 and any(norm_text(n) == 'self.code = code' for n in walk_no_nested(init.node))
        ctx.check('R20.3', ok_code, "CommandException carries a non-zero default exit code", init or nc, (init or nc).node,
                  construct=f"CommandException(code={norm_text(param_default(init, 'code')) if init else '?'})")
        ent = ctx.func(f"{CU}.console_entrypoint")
        wrappers = [f for f in p.functions.values() if f.qualname.startswith(ent.qualname + '.<locals>') and f.name == 'wrapper']
        ok_wrap = False
        for w in wrappers:
            for n in ast.walk(w.node):
                if isinstance(n, ast.With) and any(isinstance(i.context_expr, ast.Call) and callee(ctx, w, i.context_expr) == f"{CU}.nice_console_errors" for i in n.items):
                    inner = [c for s in n.body for c in ast.walk(s) if isinstance(c, ast.Call) and norm_text(c) == 'fn(options)']
                    from .common import facts as _facts203
                    ok_wrap = bool(inner) and ('handle_errors', True) in _facts203(ctx, w, n, expand=False)
        ctx.check('R20.3', ok_wrap, "the command body runs inside nice_console_errors when error handling is on", ent, ent.node,
                  construct='with nice_console_errors(): fn(options)')
        main = ctx.func('emsarray.cli.main')
        ok_main = any(d.endswith('console_entrypoint') for d in main.decorators) and any(norm_text(s) == 'options.func(options)' for s in main.body)
        ctx.check('R20.3', ok_main, "main is a console entry point that dispatches to the selected command", main, main.node)
        bc = ctx.func('emsarray.cli.command.BaseCommand.add_parser')
        ok_bc = any(isinstance(c.func, ast.Attribute) and c.func.attr == 'set_defaults' and kwarg(c, 'func') is not None
                    and norm_text(kwarg(c, 'func')) == 'self.handle' for c in calls_in(bc))
        ctx.check('R20.3', ok_bc, "each sub-command parser dispatches to its own handle()", bc, bc.node, construct='parser.set_defaults(func=self.handle)')

    # ---- R20.4
    with ctx.section('R20.4'):
        eg = p.module(f"{CMDS}.export_geometry")
        fw = eg.assigns.get('format_writers')
        ctx.require(isinstance(fw, ast.Dict), "export_geometry.format_writers is not a dict literal")
        writers = {const_value(k, None): p.canonical(eg.resolve(dotted(v) or '')) for k, v in zip(fw.keys, fw.values)}
        addargs = ctx.func(f"{CMDS}.export_geometry.Command.add_arguments")
        choices = None
        default = None
        for c in calls_in(addargs):
            if any(const_value(a, None) == '--format' for a in c.args):
                ch = kwarg(c, 'choices')
                choices = literal_strings(ch) if ch is not None else None
                default = const_value(kwarg(c, 'default'), None) if kwarg(c, 'default') is not None else None
        ctx.check('R20.4', choices is not None and set(choices) - {'auto'} == set(writers) and 'auto' in choices and default == 'auto',
                  "--format offers 'auto' plus exactly the formats that have a writer", addargs, addargs.node,
                  construct=f"choices {choices} vs writers {sorted(writers)}")
        for fmt, target in sorted(writers.items()):
            want = f"emsarray.operations.geometry.write_{fmt}"
            ctx.check('R20.4', target == want and want in p.functions, "each format is written by the library writer of that name", addargs, fw,
                      construct=f"{fmt!r} -> {target}")
        gf = ctx.func(f"{CMDS}.export_geometry.Command.guess_format")
        # the function is folded over every extension it mentions and some it does not: what is decided for each one is read off the source,
        # whether it is written as a chain of tests or as a look-up in a table
        from .common import Undecided, fold_function
        path_p = gf.params[-1]
        want_ext = {'.json': 'geojson', '.geojson': 'geojson', '.wkt': 'wkt', '.wkb': 'wkb', '.shp': 'shapefile'}
        mentioned = {n.value for n in ast.walk(gf.node) if isinstance(n, ast.Constant) and isinstance(n.value, str) and n.value.startswith('.') and len(n.value) <= 9 and ' ' not in n.value}
        sample = sorted(set(want_ext) | mentioned | {'.nc', '.txt', '.dbf', '.prj', '.shx', '.gz', '', '.zip'})
        got, undecided = {}, None
        for e_ in sample:
            try:
                got[e_] = fold_function(gf, {f"{path_p}.suffix": e_})
            except Undecided as exc:
                undecided = str(exc)
                break
        rng = {v for k, v in got.values() if k == 'return'}
        ok_g = undecided is None and rng <= set(writers) and all(k in ('return', 'raise') for k, _ in got.values()) \
            and all(v == 'CommandException' for k, v in got.values() if k == 'raise') and any(k == 'raise' for k, _ in got.values())
        ctx.check('R20.4', ok_g, "guess_format returns only formats that have a writer and refuses unknown extensions with a CommandException", gf, gf.node,
                  construct=f"guess_format range {sorted(str(x) for x in rng)}" + (f"; not understood: `{undecided}` (the guess is made from the path's own suffix)" if undecided else ''))
        ok_ext = undecided is None and all(got[e_] == (('return', want_ext[e_]) if e_ in want_ext else ('raise', 'CommandException')) for e_ in sample)
        ctx.check('R20.4', ok_ext, "each extension is guessed as its own format, from the last suffix of the output path, and every other extension is refused", gf, gf.node,
                  construct=f"extension -> outcome {dict((k, v[1] if v[0] == 'return' else v[0]) for k, v in got.items())}"[:300])
        # the sample decides for every extension only if the suffix is compared as a whole: equality with or membership in literal strings, a key of
        # a literal table.  `endswith('json')`, a prefix, a lower-cased copy or a pattern would accept extensions no sample mentions ('.topojson').
        gflow = ctx.flow(gf)
        parents_ = {}
        for n_ in ast.walk(gf.node):
            for ch_ in ast.iter_child_nodes(n_):
                parents_[id(ch_)] = n_

        def is_suffix(e_):
            r_ = gflow.resolve(e_) if isinstance(e_, ast.Name) else e_
            return isinstance(r_, ast.Attribute) and r_.attr == 'suffix'

        def literal_strings_(e_):
            r_ = gflow.resolve(e_) if isinstance(e_, ast.Name) else e_
            if isinstance(r_, ast.Constant) and isinstance(r_.value, str):
                return True
            if isinstance(r_, (ast.Set, ast.Tuple, ast.List)):
                return all(isinstance(x, ast.Constant) and isinstance(x.value, str) for x in r_.elts)
            if isinstance(r_, ast.Dict):
                return all(isinstance(x, ast.Constant) and isinstance(x.value, str) for x in r_.keys)
            return False
        odd = []
        for n_ in ast.walk(gf.node):
            if not (isinstance(n_, (ast.Name, ast.Attribute)) and isinstance(getattr(n_, 'ctx', None), ast.Load) and is_suffix(n_)):
                continue
            par_ = parents_.get(id(n_))
            if isinstance(par_, ast.Attribute) and par_.value is n_ and is_suffix(par_):
                continue
            if isinstance(par_, ast.Assign):
                continue        # extension = output_path.suffix
            if isinstance(par_, ast.Compare) and par_.left is n_ and len(par_.ops) == 1 and isinstance(par_.ops[0], (ast.Eq, ast.NotEq, ast.In, ast.NotIn)) and literal_strings_(par_.comparators[0]):
                continue
            if isinstance(par_, ast.Subscript) and par_.slice is n_ and literal_strings_(par_.value):
                continue
            if isinstance(par_, ast.Call) and n_ in par_.args and isinstance(par_.func, ast.Attribute) and par_.func.attr == 'get' and literal_strings_(par_.func.value):
                continue
            if isinstance(par_, ast.FormattedValue):
                continue        # the message of the refusal
            if isinstance(par_, ast.match_case) or isinstance(par_, ast.Match):
                continue
            odd.append(norm_text(par_) if par_ is not None else norm_text(n_))
        ctx.check('R20.4', not odd, "the suffix is compared as a whole (equal to / one of literal extensions, or a key of a literal table): no prefix, ending, case folding or pattern decides the format",
                  gf, gf.node, construct=f"other uses of the suffix: {odd[:3] or 'none'}")
        cmds_pkg = [m for name, m in p.modules.items() if name.startswith(CMDS + '.') and not name.rsplit('.', 1)[-1].startswith('_')]
        ctx.require(len(cmds_pkg) >= 4, "fewer than four command modules found")
        for m in sorted(cmds_pkg, key=lambda m: m.name):
            ci = m.classes.get('Command')
            ok = ci is not None and p.is_subclass(ci, 'emsarray.cli.command.BaseCommand') and 'handle' in ci.methods and 'add_arguments' in ci.methods
            ctx.check('R20.4', ok, "a public command module exports a BaseCommand subclass named Command with handle and add_arguments", None, None,
                      construct=f"{m.name}.Command")
        fa = ctx.func('emsarray.cli._find_all_commands')
        ok_fa = any(isinstance(n, ast.Yield) and norm_text(n.value).endswith('.Command') for n in ast.walk(fa.node)) and \
            any('iter_modules(commands.__path__)' in norm_text(n) for n in ast.walk(fa.node) if isinstance(n, ast.For))
        ctx.check('R20.4', ok_fa, "sub-commands are discovered from every module of cli.commands", fa, fa.node)

    # ---- R20.5
    with ctx.section('R20.5'):
        clip = ctx.func(f"{CMDS}.clip.Command.handle")
        flow = ctx.flow(clip)
        cc = [c for c in method_calls(clip, 'clip')]
        ok = False
        if len(cc) == 1:
            c = cc[0]
            recv = flow.resolve(c.func.value)
            ds_ok = isinstance(recv, ast.Attribute) and recv.attr == 'ems' and flow.reaches(recv.value, lambda n: isinstance(n, ast.Call)
                                                                                             and (callee(ctx, clip, n) or '').endswith('open_dataset')
                                                                                             and norm_text(n.args[0]) == 'options.input_path')
            extra = [k.arg for k in c.keywords if k.arg not in ('work_dir',)]
            ok = ds_ok and len(c.args) == 1 and norm_text(c.args[0]) == 'options.clip_geometry' and not extra
        ctx.check('R20.5', ok, "clip: open_dataset(input).ems.clip(<parsed geometry>, work_dir=...) with the library's default buffer", clip,
                  cc[0] if cc else clip.node)
        tn = [c for c in method_calls(clip, 'to_netcdf')]
        ok = (len(tn) == 1 and cc and isinstance(flow.resolve(tn[0].func.value), ast.Attribute) and flow.resolve(tn[0].func.value).attr == 'ems'
              and flow.resolve(flow.resolve(tn[0].func.value).value) is cc[0] and len(tn[0].args) == 1 and norm_text(tn[0].args[0]) == 'options.output_path')
        ctx.check('R20.5', ok, "clip: the clipped dataset is saved with its own convention's to_netcdf to the output path", clip, tn[0] if tn else clip.node)
        ca = ctx.func(f"{CMDS}.clip.Command.add_arguments")
        ok = any(any(const_value(a, None) == 'clip_geometry' for a in c.args) and kwarg(c, 'type') is not None
                 and p.qualify(kwarg(c, 'type'), ca) == f"{CU}.geometry_argument" for c in calls_in(ca))
        ctx.check('R20.5', ok, "clip: the geometry argument is parsed by cli.utils.geometry_argument", ca, ca.node)
        ep = ctx.func(f"{CMDS}.extract_points.Command.handle")
        flow = ctx.flow(ep)
        ed = [c for c in calls_in(ep) if callee(ctx, ep, c) == 'emsarray.operations.point_extraction.extract_dataframe']
        ok = False
        if len(ed) == 1:
            c = ed[0]
            from .common import arg_or_kw as _aok
            a0, a1r, a2 = _aok(c, 0, 'dataset'), _aok(c, 1, 'dataframe'), _aok(c, 2, 'coordinate_columns')
            a1 = flow.resolve(a1r) if a1r is not None else None
            ok = (a0 is not None and a2 is not None and isinstance(a1, ast.Call) and (callee(ctx, ep, a1) or '').endswith('read_csv')
                  and norm_text(a1.args[0]) == 'options.points' and norm_text(a2) == 'options.coordinate_columns'
                  and norm_text(kwarg(c, 'point_dimension') or ast.Constant(None)) == 'options.point_dimension'
                  and norm_text(kwarg(c, 'missing_points') or ast.Constant(None)) == 'options.missing_points'
                  and flow.reaches(a0, lambda n: isinstance(n, ast.Call) and (callee(ctx, ep, n) or '').endswith('open_dataset')
                                   and norm_text(n.args[0]) == 'options.input_path')
                  and len(c.args) + len(c.keywords) == 5 and not any(isinstance(x, ast.Starred) for x in c.args) and all(k.arg for k in c.keywords))
        ctx.check('R20.5', ok, "extract-points: extract_dataframe(dataset, read_csv(points), columns, point_dimension=, missing_points=) with the options as parsed", ep,
                  ed[0] if ed else ep.node)
        ok = False
        for t in walk_no_nested(ep.node):
            if isinstance(t, ast.Try) and ed and any(x is ed[0] for b in t.body for x in ast.walk(b)):
                for h in t.handlers:
                    if h.type is not None and norm_text(h.type).endswith('NonIntersectingPoints'):
                        ok = any(isinstance(s, ast.Raise) and isinstance(s.exc, ast.Call) and (dotted(s.exc.func) or '').endswith('CommandException')
                                 for s in h.body)
        ctx.check('R20.5', ok, "extract-points: points outside the model end the command with a CommandException", ep, ep.node,
                  construct='except NonIntersectingPoints: raise CommandException(...)')
        wr = [c for c in calls_in(ep) if callee(ctx, ep, c) == 'emsarray.utils.to_netcdf_with_fixes']
        ok = (len(wr) == 1 and ed and flow.resolve(wr[0].args[0]) is ed[0] and norm_text(wr[0].args[1]) == 'options.output_path')
        ctx.check('R20.5', ok, "extract-points: the extracted dataset itself is written to the output path", ep, wr[0] if wr else ep.node)
        # the writer fixes the units of `time_variable` *after* writing: naming a variable that is not in
        # the written dataset fails with the file already on disk (a partial success)
        tv = kwarg(wr[0], 'time_variable') if wr else None
        ok_tv = tv is None or is_none(tv)
        detail = 'no time variable passed'
        if tv is not None and not is_none(tv) and wr:
            written = wr[0].args[0]
            # every definition of the name that is not None must be followed by a membership test against the written dataset
            guards_ = [st for st in walk_no_nested(ep.node) if isinstance(st, ast.If) and isinstance(st.test, ast.Compare) and len(st.test.ops) == 1
                       and isinstance(st.test.ops[0], ast.NotIn) and norm_text(st.test.left) == norm_text(tv)
                       and isinstance(st.test.comparators[0], (ast.Attribute, ast.Name))
                       and flow.canon(st.test.comparators[0].value if isinstance(st.test.comparators[0], ast.Attribute) else st.test.comparators[0]) == flow.canon(written)
                       and len(st.body) == 1 and isinstance(st.body[0], ast.Assign) and norm_text(st.body[0].targets[0]) == norm_text(tv) and is_none(st.body[0].value)]
            from_written = flow.reaches(tv, lambda n: isinstance(n, ast.Attribute) and n.attr == 'time_coordinate' and isinstance(n.value, ast.Attribute)
                                        and n.value.attr == 'ems' and flow.canon(n.value.value) == flow.canon(written))
            dominated = bool(guards_) and ctx.cfg(ep).dominates(guards_[0], stmt_of(ep, wr[0])) and stmt_of(ep, wr[0]).lineno > guards_[0].lineno
            # or: every value the name can hold at the write is None, or was assigned under a membership test of that very value
            from .common import facts as _facts20c
            defs_ = flow.defs_of(tv) if isinstance(tv, ast.Name) else []
            wtext = norm_text(written)
            def arms(v, known):
                """(value, facts) for the arms of a conditional expression (`x = a if c else None` is `if c: x = a else: x = None`)"""
                if isinstance(v, ast.IfExp):
                    from .common import _positive_compare
                    t_, pol_ = (_positive_compare(v.test) if isinstance(v.test, ast.Compare) else (v.test, True))
                    return arms(v.body, known | {(norm_text(t_), pol_)}) + arms(v.orelse, known | {(norm_text(t_), not pol_)})
                return [(v, known)]
            tested = bool(defs_) and all(
                d.kind == 'assign' and d.value is not None and d.stmt is not None and all(is_none(v_) or any(
                    pol and t in (f"{norm_text(v_)} in {wtext}.{holder}" for holder in ('variables', 'coords', 'data_vars')) or (pol and t == f"{norm_text(v_)} in {wtext}")
                    for t, pol in known_) for v_, known_ in arms(d.value, set(_facts20c(ctx, ep, d.stmt, expand=False))))
                for d in defs_)
            dominated = dominated or tested
            ok_tv = from_written or dominated
            detail = 'taken from the written dataset itself' if from_written else ('guarded by a membership test on the written dataset' if dominated else
                                                                               f"{norm_text(tv)} comes from the input dataset and is not checked against the extracted one")
        ctx.check('R20.5', bool(ok_tv), "extract-points: the time variable whose units are fixed after writing is one the written dataset contains (point extraction drops variables without a selected dimension)",
                  ep, wr[0] if wr else ep.node, construct=f"time_variable: {detail}")
        for hq in (f"{CMDS}.clip.Command.handle", f"{CMDS}.extract_points.Command.handle", f"{CMDS}.export_geometry.Command.handle"):
            hf = ctx.func(hq)
            opens = [c for c in calls_in(hf) if (callee(ctx, hf, c) or '').endswith('open_dataset')]
            ok = len(opens) == 1 and [norm_text(a) for a in opens[0].args] == ['options.input_path'] and not opens[0].keywords
            ctx.check('R20.5', ok, "the input is opened exactly as the library opens it: emsarray.open_dataset(input path) with no decoding options", hf,
                      opens[0] if opens else hf.node, construct=f"{hf.short}: {norm_text(opens[0]) if opens else 'no open_dataset call'}")
        csvs = [c for c in calls_in(ep) if (callee(ctx, ep, c) or '').endswith('read_csv')]
        ok = len(csvs) == 1 and [norm_text(a) for a in csvs[0].args] == ['options.points'] and not csvs[0].keywords and \
            all(ctx.flow(ep).resolve(c.args[1]) is csvs[0] for c in ed)
        ctx.check('R20.5', ok, "extract-points: the table handed to the library is the CSV as read (no rows dropped, re-indexed or filtered)", ep,
                  csvs[0] if csvs else ep.node, construct=f"dataframe = {norm_text(ctx.flow(ep).resolve(ed[0].args[1])) if ed else '?'}")
        ex = ctx.func(f"{CMDS}.export_geometry.Command.handle")
        flow = ctx.flow(ex)
        wcalls = [c for c in calls_in(ex) if isinstance(c.func, ast.Name) and isinstance(flow.resolve(c.func), ast.Subscript)
                  and norm_text(flow.resolve(c.func).value) == 'format_writers']
        ok = False
        if len(wcalls) == 1:
            c = wcalls[0]
            wv = flow.resolve(c.func)
            ok_w = isinstance(wv, ast.Subscript) and norm_text(wv.value) == 'format_writers'
            fmt_alts = set(flow.alternatives(wv.slice)) if ok_w and isinstance(wv.slice, ast.Name) else set()
            ok_fmt = ok_w and ('attr', ('attr', ('param', 'options'), 'format'), ) != () and any('format' in repr(a) for a in fmt_alts) \
                and any('guess_format' in repr(a) for a in fmt_alts)
            ok = (ok_w and ok_fmt and len(c.args) == 2 and flow.reaches(c.args[0], lambda n: isinstance(n, ast.Call)
                                                                       and (callee(ctx, ex, n) or '').endswith('open_dataset'))
                  and norm_text(flow.resolve(c.args[1])) == 'options.output_path')
        ctx.check('R20.5', ok, "export-geometry: format_writers[<requested or guessed format>](dataset, output_path)", ex, wcalls[0] if wcalls else ex.node)
        from .common import facts as _facts20
        auto = [c for c in calls_in(ex) if isinstance(c.func, ast.Attribute) and c.func.attr == 'guess_format' and norm_text(c.func.value) == 'self']
        ok = len(auto) == 1 and len(auto[0].args) == 1 and norm_text(flow.resolve(auto[0].args[0])) == 'options.output_path' \
            and ("options.format == 'auto'", True) in _facts20(ctx, ex, auto[0])
        ctx.check('R20.5', ok, "export-geometry: the format is guessed from the output path only when 'auto' was requested", ex, auto[0] if auto else ex.node)
        ok = any(isinstance(t, ast.Try) and any(norm_text(h.type) == 'KeyError' and any(isinstance(s, ast.Raise) and 'CommandException' in norm_text(s) for s in h.body)
                                                 for h in t.handlers if h.type is not None) for t in walk_no_nested(ex.node))
        ctx.check('R20.5', ok, "export-geometry: an unknown format ends the command with a CommandException", ex, ex.node,
                  construct='except KeyError: raise CommandException(...)')



# --------------------------------------------------------------------------- checker self-test
from ..variants import V  # noqa: E402

_CU = 'src/emsarray/cli/utils.py'
_EG = 'src/emsarray/cli/commands/export_geometry.py'
_CL = 'src/emsarray/cli/commands/clip.py'
_EP = 'src/emsarray/cli/commands/extract_points.py'
VARIANTS = [
    V('C20', 'negative-bounds-read-as-option', _CL, "        parser._negative_number_matcher = re.compile(r'^-(\\d|\\.\\d)')  # type: ignore\n", "", 'R20.1'),
    V('C20', 'every-dash-word-is-an-argument', _CL, "re.compile(r'^-(\\d|\\.\\d)')", "re.compile(r'^-')", 'R20.1'),
    V('C20', 'time-variable-not-checked', 'src/emsarray/cli/commands/extract_points.py', "        if time_name not in point_data.variables:\n            time_name = None\n", "", 'R20.5'),
    V('C20', 'match-reintroduced', _CU, "    bounds_match = bounds_re.fullmatch(argument_string)", "    bounds_match = bounds_re.match(argument_string)", 'R20.1'),
    V('C20', 'bounds-argument-match', _CU, "    match = bounds_re.fullmatch(bounds_string)", "    match = bounds_re.match(bounds_string)", 'R20.1'),
    V('C20', 'search', _CU, "    match = bounds_re.fullmatch(bounds_string)", "    match = bounds_re.search(bounds_string)", 'R20.1'),
    V('C20', 'three-numbers', _CU, "bounds_re = re.compile(r'\\s*,\\s*'.join([DECIMAL] * 4))", "bounds_re = re.compile(r'\\s*,\\s*'.join([DECIMAL] * 3))", 'R20.1'),
    V('C20', 'semicolon-separator', _CU, "bounds_re = re.compile(r'\\s*,\\s*'.join([DECIMAL] * 4))", "bounds_re = re.compile(r'\\s*[,;]\\s*'.join([DECIMAL] * 4))", 'R20.1'),
    V('C20', 'stripped-argument', _CU, "    match = bounds_re.fullmatch(bounds_string)", "    match = bounds_re.fullmatch(bounds_string.split(';')[0])", 'R20.1'),
    V('C20', 'json-error-swallowed', _CU, "            raise argparse.ArgumentTypeError(f\"Invalid geojson string: {err}\") from err", "            return None", 'R20.2'),
    V('C20', 'handler-exit-zero', _CU, "        command_exception_logger.error(err.message)\n        sys.exit(err.code)", "        command_exception_logger.error(err.message)\n        sys.exit(0)", 'R20.3'),
    V('C20', 'handler-without-exit', _CU, "        uncaught_exception_logger.exception('Uncaught exception: ' + str(err))\n        sys.exit(3)", "        uncaught_exception_logger.exception('Uncaught exception: ' + str(err))", 'R20.3'),
    V('C20', 'default-code-zero', 'src/emsarray/cli/exceptions.py', "code: int = 1", "code: int = 0", 'R20.3'),
    V('C20', 'wkb-writer-missing', _EG, "    'wkb': geometry.write_wkb,\n", "", 'R20.4'),
    V('C20', 'wkt-writes-wkb', _EG, "    'wkt': geometry.write_wkt,", "    'wkt': geometry.write_wkb,", 'R20.4'),
    V('C20', 'guess-wkt-as-wkb', _EG, "        if extension == '.wkt':\n            return 'wkt'", "        if extension == '.wkt':\n            return 'wkb'", 'R20.4'),
    V('C20', 'clip-buffer-slipped-in', _CL, "dataset.ems.clip(options.clip_geometry, work_dir=work_path)", "dataset.ems.clip(options.clip_geometry, work_dir=work_path, buffer=1)", 'R20.5'),
    V('C20', 'clip-buffered-geometry', _CL, "dataset.ems.clip(options.clip_geometry, work_dir=work_path)", "dataset.ems.clip(options.clip_geometry.buffer(0.01), work_dir=work_path)", 'R20.5'),
    V('C20', 'policy-overridden', _EP, "                missing_points=options.missing_points)", "                missing_points='drop' if options.missing_points == 'fill' else options.missing_points)", 'R20.5'),
    V('C20', 'miss-not-an-error', _EP, "            raise CommandException(\n                f\"Error extracting points: the points in the following rows \"\n                f\"did not intersect the dataset geometry:\\n\"\n                f\"{rows.head()}\\n\"\n                f\"(total rows: {len(rows)})\")", "            logger.warning('%d points missed', len(rows))\n            return", 'R20.5'),
    V('C20', 'export-opens-undecoded', _EG, "        dataset = emsarray.open_dataset(options.input_path)", "        dataset = emsarray.open_dataset(options.input_path, mask_and_scale=False, decode_times=False)", 'R20.5'),
    V('C20', 'csv-rows-dropped', _EP, "        dataframe = pandas.read_csv(options.points)", "        dataframe = pandas.read_csv(options.points).dropna(how='all')", 'R20.5'),
    V('C20', 'whitespace-stripped', _CU, "    bounds_match = bounds_re.fullmatch(argument_string)", "    bounds_match = bounds_re.fullmatch(''.join(argument_string.split()))", 'R20.1'),
    # benign
    V('C20', 'benign-anchored-match', _CU, "bounds_re = re.compile(r'\\s*,\\s*'.join([DECIMAL] * 4))\n", "bounds_re = re.compile(r'\\s*,\\s*'.join([DECIMAL] * 4) + r'\\Z')\n", None),
]
