"""C04 - point lookup returns exactly the lowest-indexed intersecting cell."""
from __future__ import annotations

import ast

from ..model import const_value, dotted, kwarg, norm_text
from ..report import Context
from .common import (
    BANNED_NEAREST, arg_or_kw, builtin_call, calls_in, emptiness_test, enclosing_ifs,
    following_guards, inplace_sorted_before, is_none, method_calls, np_call,
    predicate_of, sorted_ascending, strtree_queries,
)

BASE = 'emsarray.conventions._base.Convention'


def lowest_of(ctx: Context, fi, expr: ast.AST):
    """If expr denotes the minimum of a collection, return ('min', collection); else (why, None)."""
    flow = ctx.flow(fi)
    e = flow.resolve(expr)
    # int(...) wrappers do not change the value
    while isinstance(e, ast.Call) and isinstance(e.func, ast.Name) and e.func.id == 'int' and len(e.args) == 1:
        e = flow.resolve(e.args[0])
    if isinstance(e, ast.Subscript):
        idx = const_value(e.slice, None)
        base = e.value
        inner = sorted_ascending(ctx, fi, base)
        if inner is not None:
            if idx == 0:
                return 'min', inner
            return f"element [{norm_text(e.slice)}] of an ascending sort is not the lowest", None
        if isinstance(base, ast.Name) and inplace_sorted_before(ctx, fi, base):
            if idx == 0:
                return 'min', base
            return f"element [{norm_text(e.slice)}] of a sorted array is not the lowest", None
        # `if len(hits) > 1: hits = numpy.sort(hits)` before `hits[0]`: a collection of at most one element is sorted as it stands
        if isinstance(base, ast.Name) and idx == 0:
            defs = flow.defs_of(base)
            cond = [d for d in defs if d.kind == 'assign' and d.value is not None and sorted_ascending(ctx, fi, d.value) is not None]
            plain = [d for d in defs if d not in cond]
            if len(cond) == 1 and len(plain) == 1:
                from .common import enclosing_ifs
                src = sorted_ascending(ctx, fi, cond[0].value)
                st = getattr(cond[0], 'stmt', None) or getattr(cond[0], 'node', None)
                ifs = enclosing_ifs(fi, st) if st is not None else []
                if ifs and isinstance(src, ast.Name) and src.id == base.id:
                    test, in_body = ifs[-1][0].test, ifs[-1][1]
                    t = norm_text(test)
                    many = {f"len({base.id}) > 1", f"len({base.id}) >= 2", f"{base.id}.size > 1", f"{base.id}.size >= 2", f"1 < len({base.id})"}
                    if in_body and t in many and not ifs[-1][0].orelse and len(ifs) == 1:
                        return 'min', plain[0].value if getattr(plain[0], 'value', None) is not None else base
        return "subscript of a collection that is not sorted ascending", None
    if isinstance(e, ast.Call):
        if (builtin_call(e, ['min']) or np_call(ctx, fi, e, ['min', 'amin'])) and len(e.args) == 1 and not e.keywords:
            return 'min', e.args[0]
        if isinstance(e.func, ast.Attribute) and e.func.attr == 'min' and not e.args and not e.keywords:
            return 'min', e.func.value
    return "not a minimum selection", None


def derives_from_query(ctx, fi, expr, query_calls) -> bool:
    flow = ctx.flow(fi)
    ids = {id(q) for q in query_calls}
    return flow.reaches(expr, lambda n: id(n) in ids)


def run(ctx: Context) -> None:
    p = ctx.p
    base = p.cls(BASE)
    ctx.rule('R04.1', "the candidate set is strtree.query(<the point>, predicate='intersects'); no nearest-neighbour call is reachable", floor=3)
    ctx.rule('R04.2', "the cell returned is the minimum of the hit indexes (ascending sort then [0], or min)", floor=1)
    ctx.rule('R04.3', "linear_index, wind_index(...) argument and polygons[...] subscript are the same value", floor=2)
    ctx.rule('R04.4', "a miss returns None: the item is built only under a non-emptiness test of the hits, every other exit returns None", floor=2)
    ctx.rule('R04.5', "the spatial index is built over exactly self.polygons (holes keep their slot)", floor=1)
    ctx.rule('R04.6', "select_point raises on a miss and selects the native index of the item found", floor=3)
    ctx.rule('R04.7', "cells without usable geometry are None in the polygon array (invalid polygons found over the full array and replaced in place), so the index can never return them (shared with C06 R06.6)", floor=6)
    from .common import adopt_foundations as _adopt
    _adopt(ctx, 'R04.8', ['geometry', 'order', 'topology'], floor=60)
    ctx.assume("GEOS 'intersects' is true for interior and boundary points; STRtree.query is complete and returns positions in the input array, skipping None entries")

    impls = p.implementations(base, 'get_index_for_point')
    ctx.require(len(impls) >= 1, "no implementation of Convention.get_index_for_point found")
    for fi in impls:
        flow = ctx.flow(fi)
        cfg = ctx.cfg(fi)
        point_param = fi.params[1] if len(fi.params) > 1 else None
        queries = strtree_queries(ctx, fi)
        ctx.check('R04.1', len(queries) >= 1, "lookup queries self.strtree", fi, fi.node,
                  construct='strtree.query call present')
        for q in queries:
            pred = predicate_of(q)
            ctx.check('R04.1', pred == 'intersects', "predicate is the literal 'intersects'", fi, q,
                      detail=f"predicate={pred!r}")
            geom = q.args[0] if q.args else kwarg(q, 'geometry')
            ok = geom is not None and point_param is not None and flow.canon(geom) == ('param', point_param)
            ctx.check('R04.1', ok, "the query geometry is the point argument itself", fi, q,
                      construct=f"query geometry {norm_text(geom) if geom is not None else '<missing>'}")
            extra = [k.arg for k in q.keywords if k.arg not in ('predicate', 'geometry')]
            ctx.check('R04.1', not extra, "no distance / extra query options", fi, q,
                      construct=f"query options {sorted(x or '**' for x in extra)}")
        # no nearest fallback anywhere in the function (or in emsarray functions it calls directly)
        banned = [c for c in calls_in(fi, nested=True)
                  if isinstance(c.func, ast.Attribute) and c.func.attr in BANNED_NEAREST]
        ctx.check('R04.1', not banned, "no nearest-neighbour query in the lookup", fi,
                  banned[0] if banned else fi.node, construct='nearest-neighbour calls: ' + (norm_text(banned[0]) if banned else 'none'))

        # the item constructor(s)
        items = []
        for r in fi.returns():
            v = flow.resolve(r.value) if r.value is not None else None
            if v is not None and isinstance(v, ast.Call) and (dotted(v.func) or '').endswith('SpatialIndexItem'):
                items.append((r, v))
        ctx.need('R04.2', items, f"no `return SpatialIndexItem(...)` found; re-triage R04.2-R04.4", fi)
        for r, item in items:
            lin = arg_or_kw(item, 0, 'linear_index')
            idx = arg_or_kw(item, 1, 'index')
            poly = arg_or_kw(item, 2, 'polygon')
            ctx.require(lin is not None and idx is not None and poly is not None,
                        f"{fi.short}: SpatialIndexItem call without its three fields")
            why, coll = lowest_of(ctx, fi, lin)
            ok = coll is not None and derives_from_query(ctx, fi, coll, queries)
            ctx.check('R04.2', ok, "linear_index is the minimum of the query hits", fi, item,
                      construct=f"linear_index={norm_text(flow.resolve(lin))}",
                      detail='' if ok else (why if coll is None else 'minimum of something other than the query result'))
            # R04.3
            idx_r = flow.resolve(idx)
            ok_idx = (isinstance(idx_r, ast.Call) and isinstance(idx_r.func, ast.Attribute)
                      and idx_r.func.attr == 'wind_index' and len(idx_r.args) == 1
                      and flow.canon(idx_r.func.value) == ('param', fi.params[0])
                      and flow.canon(idx_r.args[0]) == flow.canon(lin)
                      and not [k for k in idx_r.keywords if k.arg != 'grid_kind' or not is_none(k.value)])
            ctx.check('R04.3', ok_idx, "index is self.wind_index(<the same linear index>) on the default grid", fi, item,
                      construct=f"index={norm_text(idx_r)}")
            poly_r = flow.resolve(poly)
            ok_poly = (isinstance(poly_r, ast.Subscript)
                       and flow.canon(poly_r.value) == ('attr', ('param', fi.params[0]), 'polygons')
                       and flow.canon(poly_r.slice) == flow.canon(lin))
            ctx.check('R04.3', ok_poly, "polygon is self.polygons[<the same linear index>]", fi, item,
                      construct=f"polygon={norm_text(poly_r)}")
            # R04.4 guard
            guards = enclosing_ifs(fi, r)
            early = following_guards(fi, r)
            good = False
            detail = 'item is returned without a non-emptiness test of the hits'
            for st, in_body in guards:
                t = emptiness_test(flow, st.test)
                if t is not None and derives_from_query(ctx, fi, t[1], queries):
                    want = 'nonempty' if in_body else 'empty'
                    good = t[0] == want
                    detail = f"guard `{norm_text(st.test)}` classified {t[0]}, item in {'body' if in_body else 'else'}"
            for st in early:
                t = emptiness_test(flow, st.test)
                if t is not None and derives_from_query(ctx, fi, t[1], queries) and t[0] == 'empty':
                    good = True
                    detail = f"early exit on `{norm_text(st.test)}`"
            ctx.check('R04.4', good, "the item is returned exactly when the hit set is non-empty", fi, r,
                      construct=f"guard of `return SpatialIndexItem(...)`: {detail}")
        # every other exit returns None
        others_ok = True
        bad = None
        for kind, node in cfg.exits():
            if kind == 'return':
                v = flow.resolve(node.value) if node.value is not None else None
                if any(node is r for r, _ in items):
                    continue
                if not is_none(v):
                    others_ok, bad = False, node
        has_none_exit = any((kind == 'fall') or (kind == 'return' and not any(node is r for r, _ in items))
                            for kind, node in cfg.exits())
        # a None exit is taken only when the query found nothing (no short cut before or beside the query)
        from .common import known_empty
        early = []
        for kind, node in cfg.exits():
            if kind == 'return' and not any(node is r for r, _ in items):
                ke = known_empty(fi, node, flow, lambda e: derives_from_query(ctx, fi, e, queries))
                if ke is not True:
                    early.append(node)
        ctx.check('R04.4', not early, "None is returned only when the hit set is known to be empty (no pre-check that can reject a point on a cell outline)", fi,
                  early[0] if early else fi.node, construct=f"None exits not implied by an empty hit set: {[norm_text(e) + ' @' + str(e.lineno // 1000) for e in early] or 'none'}")
        ctx.check('R04.4', others_ok and has_none_exit, "every exit other than the item returns None (no fallback cell)", fi,
                  bad if bad is not None else fi.node,
                  construct='miss exit: ' + (norm_text(bad) if bad is not None else ('return None' if has_none_exit else 'absent')))

    # R04.5: strtree over self.polygons
    for fi in p.implementations(base, 'strtree'):
        flow = ctx.flow(fi)
        rets = fi.returns()
        ctx.require(rets, "Convention.strtree has no return")
        for r in rets:
            v = flow.resolve(r.value)
            ok = (isinstance(v, ast.Call) and (dotted(v.func) or '').endswith('STRtree') and len(v.args) == 1
                  and not v.keywords and flow.canon(v.args[0]) == ('attr', ('param', 'self'), 'polygons'))
            ctx.check('R04.5', ok, "STRtree(self.polygons) - the full, uncompacted polygon array", fi, r)

    # holes and invalid cells are None in the array the index is built over (shared with C06)
    from . import c06
    from .common import share_obligations
    share_obligations(ctx, c06, {'R06.6'}, 'R04.7')

    # R04.6: select_point
    for fi in p.implementations(base, 'select_point'):
        flow = ctx.flow(fi)
        cfg = ctx.cfg(fi)
        lookups = [c for c in method_calls(fi, 'get_index_for_point')]
        ctx.check('R04.6', len(lookups) == 1 and len(lookups[0].args) == 1
                  and flow.canon(lookups[0].args[0]) == ('param', fi.params[1]),
                  "one lookup of the point argument", fi, lookups[0] if lookups else fi.node)
        from .common import known_none
        raises = [n for k, n in cfg.exits() if k == 'raise']
        is_lookup = lambda e: bool(lookups) and flow.reaches(e, lambda n: n is lookups[0])  # noqa: E731
        guarded = bool(raises) and all(known_none(fi, rs, is_lookup) is True for rs in raises)
        ctx.check('R04.6', guarded, "raises exactly on the paths where the lookup returned None", fi, raises[0] if raises else fi.node,
                  construct='raise reached only when `<lookup> is None`: ' + ('yes' if guarded else 'no'))
        # every exit that is not the refusal hands back the cell the lookup found: no second opinion for a point the lookup missed
        ok = bool(fi.returns())
        bad = fi.node
        for r in fi.returns():
            v = flow.resolve(r.value)
            good = False
            if isinstance(v, ast.Call) and isinstance(v.func, ast.Attribute) and v.func.attr == 'select_index' and v.args:
                a = flow.resolve(v.args[0])
                if isinstance(a, ast.Attribute) and a.attr == 'index' and lookups \
                        and flow.reaches(a.value, lambda n: n is lookups[0]) and known_none(fi, r, is_lookup) is False:
                    good = True
            if not good:
                ok, bad = False, r
        banned = [c for c in calls_in(fi, nested=True) if isinstance(c.func, ast.Attribute) and c.func.attr in BANNED_NEAREST]
        ctx.check('R04.6', not banned, "no nearest-neighbour query stands in for a lookup that missed", fi, banned[0] if banned else fi.node,
                  construct='nearest-neighbour calls: ' + (norm_text(banned[0]) if banned else 'none'))
        ctx.check('R04.6', ok, "returns select_index(<item>.index) for the item found", fi, bad)


# --------------------------------------------------------------------------- checker self-test
from ..variants import V  # noqa: E402

_B = 'src/emsarray/conventions/_base.py'
_Q = "hits = numpy.sort(self.strtree.query(point, predicate='intersects'))"
VARIANTS = [
    V('C04', 'benign-sort-only-several-hits', 'src/emsarray/conventions/_base.py', "        hits = numpy.sort(self.strtree.query(point, predicate='intersects'))\n", "        hits = self.strtree.query(point, predicate='intersects')\n        if len(hits) > 1:\n            hits = numpy.sort(hits)\n", None),
    V('C04', 'sort-only-from-three-hits', 'src/emsarray/conventions/_base.py', "        hits = numpy.sort(self.strtree.query(point, predicate='intersects'))\n", "        hits = self.strtree.query(point, predicate='intersects')\n        if len(hits) > 2:\n            hits = numpy.sort(hits)\n", 'R04.2'),
    V('C04', 'sort-in-else-branch', 'src/emsarray/conventions/_base.py', "        hits = numpy.sort(self.strtree.query(point, predicate='intersects'))\n", "        hits = self.strtree.query(point, predicate='intersects')\n        if len(hits) > 1:\n            pass\n        else:\n            hits = numpy.sort(hits)\n", 'R04.2'),
    V('C04', 'predicate-contains', _B, _Q, "hits = numpy.sort(self.strtree.query(point, predicate='contains'))", 'R04.1'),
    V('C04', 'predicate-within', _B, _Q, "hits = numpy.sort(self.strtree.query(point, predicate='within'))", 'R04.1'),
    V('C04', 'no-predicate', _B, _Q, "hits = numpy.sort(self.strtree.query(point))", 'R04.1'),
    V('C04', 'buffered-point', _B, _Q, "hits = numpy.sort(self.strtree.query(point.buffer(1e-9), predicate='intersects'))", 'R04.1'),
    V('C04', 'sort-removed', _B, _Q, "hits = self.strtree.query(point, predicate='intersects')", 'R04.2'),
    V('C04', 'descending', _B, _Q, "hits = numpy.sort(self.strtree.query(point, predicate='intersects'))[::-1]", 'R04.2'),
    V('C04', 'last-hit', _B, "            linear_index = hits[0]\n", "            linear_index = hits[-1]\n", 'R04.2'),
    V('C04', 'polygon-of-other-hit', _B, "                polygon=self.polygons[linear_index])", "                polygon=self.polygons[hits[-1]])", 'R04.3'),
    V('C04', 'index-off-by-one', _B, "                index=self.wind_index(linear_index),\n                polygon", "                index=self.wind_index(linear_index + 1),\n                polygon", 'R04.3'),
    V('C04', 'needs-two-hits', _B, "        if len(hits) > 0:\n            linear_index = hits[0]", "        if len(hits) > 1:\n            linear_index = hits[0]", 'R04.4'),
    V('C04', 'nearest-fallback', _B, "                polygon=self.polygons[linear_index])\n        return None",
      "                polygon=self.polygons[linear_index])\n        linear_index = self.strtree.nearest(point)\n        return SpatialIndexItem(linear_index, self.wind_index(linear_index), self.polygons[linear_index])", ('R04.1', 'R04.4')),
    V('C04', 'bounds-precheck', _B, "        hits = numpy.sort(self.strtree.query(point, predicate='intersects'))", "        if not shapely.box(*self.bounds).contains(point):\n            return None\n        hits = numpy.sort(self.strtree.query(point, predicate='intersects'))", 'R04.4'),
    V('C04', 'tree-over-compacted', _B, "        return STRtree(self.polygons)", "        return STRtree(self.polygons[self.mask])", 'R04.5'),
    V('C04', 'select-point-no-raise', _B, "        if index is None:\n            raise ValueError(\"Point did not intersect dataset\")\n", "", 'R04.6'),
    # benign
    V('C04', 'benign-sorted-builtin', _B, _Q, "hits = sorted(self.strtree.query(point, predicate='intersects'))", None),
    V('C04', 'benign-min', _B, "            linear_index = hits[0]\n", "            linear_index = hits.min()\n", None),
    V('C04', 'benign-rename', _B, _Q + "\n        if len(hits) > 0:\n            linear_index = hits[0]",
      "found = self.strtree.query(point, predicate='intersects')\n        hits = numpy.sort(found)\n        if len(hits) != 0:\n            linear_index = hits[0]", None),
    V('C04', 'benign-early-return', _B,
      "        if len(hits) > 0:\n            linear_index = hits[0]\n            return SpatialIndexItem(\n                linear_index=linear_index,\n                index=self.wind_index(linear_index),\n                polygon=self.polygons[linear_index])\n        return None",
      "        if len(hits) == 0:\n            return None\n        linear_index = hits[0]\n        return SpatialIndexItem(\n            linear_index=linear_index,\n            index=self.wind_index(linear_index),\n            polygon=self.polygons[linear_index])", None),
]
