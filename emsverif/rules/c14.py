"""C14 - triangulation: dispatch, pairing and counting only.

The rules are structural patterns with metavariables (emsverif.pattern): `$x` is a local
variable bound consistently across the function, so renaming locals, reformatting,
import aliases and added statements between the matched ones do not matter.
"""
from __future__ import annotations

import ast

from ..linear import const, linear, symbol
from ..model import const_value, dotted, kwarg, norm_text, walk_no_nested
from ..pattern import Matcher
from ..report import Context
from .common import calls_in, callee

TRI = 'emsarray.operations.triangulate'


def _line(node) -> int:
    return getattr(node, 'lineno', 0)


def run(ctx: Context) -> None:
    p = ctx.p
    ctx.rule('R14.1', "partition: the cells removed from the bulk (fan) path are exactly the cells sent to ear clipping, chosen by comparing each polygon's vertex count with its convex hull's; cells of length 0 (no geometry) are skipped; every other cell is fanned in the batch of its own length", floor=7)
    ctx.rule('R14.2', "fan windows: with n vertices after dropping the closing point, v0 is vertex 0 repeated n-2 times, v1 = [1, n-1) and v2 = [2, n): n-2 triangles (v0, v_k, v_k+1)", floor=5)
    ctx.rule('R14.3', "labels: every batch of triangles is labelled with the face index taken from the same index array that gathered its polygons; the ear path labels with its loop index", floor=4)
    ctx.rule('R14.4', "accounting: storage is preallocated for (length - 3) triangles per cell with geometry, written through one cursor, and the cursor is asserted to reach that total", floor=5)
    ctx.rule('R14.5', "vertex columns pair up: x<k>, y<k> come from triangle vertex k, v<k> is joined on exactly [x<k>, y<k>]; the vertex table is the de-duplicated coordinate list and is what the indexes refer to", floor=6)
    ctx.rule('R14.6', "ear clipping: a diagonal (i, i+2) is accepted only if it is covered by the polygon and meets the ring at its two end points only; the ear (i, i+1, i+2) is recorded and vertex i+1 removed; n-3 ears plus the final triangle", floor=6)
    from .common import adopt_foundations as _adopt
    _adopt(ctx, 'R14.7', ['geometry', 'topology'], floor=60)
    ctx.assume("NOT decided: containment, non-overlap and exact cover of the triangles (GEOS geometry at run time); pandas de-duplication and joins")

    td = ctx.func(f"{TRI}.triangulate_dataset")
    m = Matcher(ctx, td)
    ds = td.params[0]

    # ---- R14.1
    with ctx.section('R14.1'):
        pol = m.stmt(f"$polygons = shapely.remove_repeated_points({ds}.ems.polygons)")
        dedup = pol is not None
        pol = pol or m.stmt(f"$polygons = {ds}.ems.polygons")
        ctx.check('R14.1', pol is not None, "the cells are dataset.ems.polygons, element for element (index = linear index)", td, pol or td.node,
                  construct='polygons = [remove_repeated_points](dataset.ems.polygons)')
        ctx.check('R14.1', dedup, "consecutive repeated vertices are removed first (element-wise, None stays None): a zero length edge has no ear to cut "
                  "and counts as a side in n-2 (meshes that pad a triangle by repeating its last node, cells collapsed at a pole)", td, pol or td.node,
                  construct=f"cells: {norm_text(pol.value) if pol is not None else '?'}")
        pl = m.stmt('$length = shapely.get_num_coordinates($polygons)')
        ctx.check('R14.1', pl is not None, "the per-cell length is the coordinate count of every cell (0 for cells without geometry)", td, pl or td.node,
                  construct='length = shapely.get_num_coordinates(polygons)')
        ok = m.has('$hulls = shapely.convex_hull($polygons)', '$hull_length = shapely.get_num_coordinates($hulls)')
        conc = m.stmt('$concave = numpy.flatnonzero($hull_length != $length)') or m.stmt('$concave = numpy.flatnonzero($length != $hull_length)')
        ctx.check('R14.1', ok and conc is not None, "a cell is concave (or has collinear vertices) iff its convex hull has a different vertex count", td,
                  conc or td.node, construct='concave = flatnonzero(num_coordinates(convex_hull(polygons)) != length)')
        zero = m.stmt('$length[$concave] = 0')
        ctx.check('R14.1', zero is not None, "exactly those cells are removed from the fan path (their length is set to 0)", td, zero or td.node,
                  construct='length[concave] = 0')
        ear = m.stmt('for $ear_i in $concave:\n    ...')
        ok = ear is not None and conc is not None and zero is not None and _line(conc) < _line(zero) and _line(zero) < _line(ear)
        ctx.check('R14.1', ok, "and exactly those cells are iterated by the ear clipping path (same index array)", td, ear or td.node,
                  construct='for i in concave: ...')
        # the set is computed for every dataset: the only definition reaching both uses is that comparison, and it is not under a condition
        if conc is not None and zero is not None and ear is not None:
            from .common import facts as _facts
            tflow = ctx.flow(td)
            zi = zero.targets[0].slice if isinstance(zero.targets[0], ast.Subscript) else None
            others = []
            for u in (zi, ear.iter):
                if isinstance(u, ast.Name) and tflow.resolve(u) is not conc.value:      # (a plain alias of the set resolves to it)
                    others += [d for d in tflow.defs_of(u) if d.stmt is not conc]
            conds = [f"`{t}` is {pol}" for t, pol in _facts(ctx, td, conc, expand=False)]
            ctx.check('R14.1', not others and not conds, "the concave cells are found for every dataset, whatever its convention or options: no other value (an empty set for grids "
                      "\"known\" to be convex - curvilinear cells need not be) reaches the fan and ear paths", td, (others[0].stmt if others else conc),
                      construct=f"other definitions reaching the uses: {[norm_text(d.stmt)[:50] for d in others if d.stmt is not None] or 'none'}; conditions on the computation: {conds or 'none'}")
        # the distinct lengths, of all cells (length 0 is then skipped in the loop) or of the cells that still have one
        NONZERO = ('$length[$length != 0]', '$length[numpy.nonzero($length)]', '$length[$length > 0]', '$length[numpy.flatnonzero($length)]')
        ul = m.stmt('$unique = numpy.unique($length)')
        zero_left_out = False
        for alt in NONZERO:
            if ul is None:
                ul = m.stmt(f'$unique = numpy.unique({alt})')
                zero_left_out = ul is not None
        bulk = m.stmt('for $ul in $unique:\n    ...')
        ok = ul is not None and bulk is not None and zero is not None and _line(ul) > _line(zero)
        ctx.check('R14.1', ok, "the fan path visits every remaining distinct length once (computed after the concave cells were removed)", td, ul or td.node,
                  construct='unique = numpy.unique(length)  # after zeroing')
        sel = m.stmt('$batch = numpy.flatnonzero($length == $ul)', within=bulk) if bulk is not None else None
        from .common import path_conditions
        skip_ok = False
        conds = []
        if sel is not None:
            uln = m.name('ul')
            for t, pol in path_conditions(td, sel):
                if not any(x is t for x in ast.walk(bulk)):
                    continue
                conds.append((norm_text(t), pol))
                if isinstance(t, ast.Compare) and len(t.ops) == 1 and isinstance(t.left, ast.Name) and t.left.id == uln and const_value(t.comparators[0], None) == 0 \
                        and type(const_value(t.comparators[0], None)) is int:
                    if (isinstance(t.ops[0], ast.Eq) and pol is False) or (isinstance(t.ops[0], ast.NotEq) and pol is True) or (isinstance(t.ops[0], ast.Gt) and pol is True):
                        skip_ok = True
                elif isinstance(t, ast.Name) and t.id == uln and pol is True:
                    skip_ok = True
        # no other condition may stand between a length and its batch
        skip_ok = (skip_ok and len(conds) == 1) or (zero_left_out and sel is not None and not conds)
        ctx.check('R14.1', skip_ok, "length 0 (no geometry, or handled by ear clipping) is skipped, and nothing else is", td, sel or bulk or td.node,
                  construct=f"batch selected under {conds}")
        sel = m.stmt('$batch = numpy.flatnonzero($length == $ul)', within=bulk) if bulk is not None else None
        ctx.check('R14.1', sel is not None, "a batch is all cells of exactly that length", td, sel or bulk or td.node,
                  construct='batch = numpy.flatnonzero(length == unique_length)')

    # ---- R14.3
    with ctx.section('R14.3'):
        # the one helper both paths write through: the nested function called in the ear loop (whatever it is called)
        helper = '_add_triangles'
        if ear is not None:
            nested = {f.name for f in p.functions.values() if f.parent is td}
            called = [c.func.id for c in ast.walk(ear) if isinstance(c, ast.Call) and isinstance(c.func, ast.Name) and c.func.id in nested and len(c.args) == 2]
            if len(set(called)) == 1:
                helper = called[0]
        if bulk is not None:
            ok = m.has('$batch_polygons = $polygons[$batch]', '$fan = _triangulate_polygons_by_length($batch_polygons)', within=bulk) \
                or m.has('$fan = _triangulate_polygons_by_length($polygons[$batch])', within=bulk)
            ctx.check('R14.3', ok, "the batch's polygons are gathered with the batch's own index array and fanned together", td, bulk,
                      construct='fan = _triangulate_polygons_by_length(polygons[batch])')
            lab = m.stmt(f'for $fi, $tri in zip($batch, $fan):\n    {helper}(int($fi), $tri)', within=bulk)
            if lab is None:
                # the whole batch at once: every face index repeated once per triangle of its fan, fans laid end to end (same order)
                lab = m.stmt(f'{helper}(numpy.repeat($batch, $fan.shape[1]), $fan.reshape((-1, 3, 2)))', within=bulk) or \
                    (m.stmt(f'{helper}(numpy.repeat($batch, $per), $fan.reshape((-1, 3, 2)))', within=bulk)
                     if m.stmt('$per = $fan.shape[1]', within=bulk) is not None else None)
            ctx.check('R14.3', lab is not None, "triangles are labelled by zipping that same index array with the fan result", td, lab or bulk,
                      construct='for face_index, triangles in zip(batch, fan): _add_triangles(int(face_index), triangles)')
        else:
            ctx.check('R14.3', False, "the fan path exists", td, td.node, construct='bulk loop not found')
        if ear is not None:
            m2 = Matcher(ctx, td, m.bind)
            ok = m2.ordered('$poly = $polygons[$ear_i]', '$ear_tris = _triangulate_concave_polygon($poly)', f'{helper}(int($ear_i), $ear_tris)', within=ear)
            ctx.check('R14.3', ok, "the ear path triangulates polygons[i] and labels the result with that same i", td, ear,
                      construct='polygon = polygons[i]; triangles = _triangulate_concave_polygon(polygon); _add_triangles(int(i), triangles)')
        add = p.functions.get(f"{td.qualname}.<locals>.{helper}")
        ctx.need('R14.4', add is not None, "triangulate_dataset writes triangles through one helper", td)
        ma = Matcher(ctx, add)
        fi_p, tri_p = add.params[0], add.params[1]
        ok = ma.ordered(f"$n = len({tri_p})", f"$labels[$cursor:$cursor + $n] = {fi_p}", f"$coords[$cursor:$cursor + $n] = {tri_p}", '$cursor += $n')
        if not ok:
            # the same rows named by their end: stop = cursor + len(batch); rows cursor:stop of both arrays; cursor = stop
            ma = Matcher(ctx, add)
            ok = ma.ordered(f"$stop = $cursor + len({tri_p})", f"$labels[$cursor:$stop] = {fi_p}", f"$coords[$cursor:$stop] = {tri_p}", '$cursor = $stop')
        ctx.check('R14.3', ok, "labels and coordinates of a batch are written to the same rows, then the cursor advances by the batch size", add, add.node,
                  construct='labels[c:c+n] = face_index; coords[c:c+n] = triangles; c += n')
        labels, coords, cursor = ma.name('labels'), ma.name('coords'), ma.name('cursor')

    # ---- R14.4
    with ctx.section('R14.4'):
        m.bind.update({k: v for k, v in (('labels', labels), ('coords', coords), ('cursor', cursor)) if v and v not in m.bind.values()})
        tt = None
        for alt in NONZERO:
            tt = tt or m.stmt(f'$total = numpy.sum({alt} - 3)')
        ok = tt is not None and zero is not None and _line(tt) < _line(zero)
        ctx.check('R14.4', ok, "total = sum over cells with geometry of (coordinate count - 3) = n - 2 triangles per n-gon, counted before concave cells are zeroed", td,
                  tt or td.node, construct='total = numpy.sum(length[numpy.nonzero(length)] - 3)')
        ok = m.has('$labels = numpy.empty($total, dtype=int)', '$coords = numpy.empty(($total, 3, 2), dtype=float)')
        ctx.check('R14.4', ok, "labels and (triangle, vertex, xy) coordinates are preallocated for that total", td, tt or td.node,
                  construct='labels = numpy.empty(total, int); coords = numpy.empty((total, 3, 2), float)')
        cur = m.stmt('$cursor = 0')
        ctx.check('R14.4', cur is not None, "the write cursor starts at 0", td, cur or td.node, construct='cursor = 0')
        asr = m.stmt('assert $cursor == $total') or m.stmt('assert $total == $cursor')
        loops_end = max([_line(x) for x in (ear, bulk) if x is not None] + [0])
        ok = asr is not None and _line(asr) > loops_end
        ctx.check('R14.4', ok, "after both paths the cursor is asserted to equal the preallocated total", td, asr or td.node, construct='assert cursor == total')

    # ---- R14.5
    with ctx.section('R14.5'):
        df = [c for c in calls_in(td) if (callee(ctx, td, c) or '').endswith('pandas.DataFrame')]
        cols = {}
        if len(df) == 1 and df[0].args and isinstance(df[0].args[0], ast.Dict):
            for k, v in zip(df[0].args[0].keys, df[0].args[0].values):
                inner = v.args[0] if isinstance(v, ast.Call) and v.args and (callee(ctx, td, v) or '').endswith('Series') else v
                cols[const_value(k, None)] = inner
        tflow5 = ctx.flow(td)

        def named(node, target) -> bool:
            # the array itself or a plain alias of it
            if not isinstance(node, ast.Name):
                return False
            if node.id == target:
                return True
            made = [st_.value for st_ in td.node.body if isinstance(st_, ast.Assign) and len(st_.targets) == 1 and isinstance(st_.targets[0], ast.Name) and st_.targets[0].id == target]
            return len(made) == 1 and tflow5.resolve(node) is made[0]
        lab_col = [k for k, v in cols.items() if named(v, labels)]
        okc = len(lab_col) == 1
        vertex_cols = {}
        for k, v in cols.items():
            if k in lab_col:
                continue
            if isinstance(v, ast.Subscript) and named(v.value, coords) and isinstance(v.slice, ast.Tuple) and len(v.slice.elts) == 3 \
                    and isinstance(v.slice.elts[0], ast.Slice):
                vertex_cols[k] = (const_value(v.slice.elts[1], None), const_value(v.slice.elts[2], None))
            else:
                okc = False
        want = {}
        for k in range(3):
            want[f"x{k}"] = (k, 0)
            want[f"y{k}"] = (k, 1)
        ctx.check('R14.5', okc and vertex_cols == want, "x<k> / y<k> are coordinate 0 / 1 of triangle vertex k", td, df[0] if df else td.node,
                  construct=f"frame columns {{name: (vertex, xy)}} = {vertex_cols}")
        vi = m.stmt('$all_coords = shapely.get_coordinates($polygons)')
        vx = m.stmt('$vindex = pandas.MultiIndex.from_arrays($all_coords.T).drop_duplicates()')
        ctx.check('R14.5', vi is not None and vx is not None, "the vertex table is every polygon coordinate, de-duplicated (x, y) pairs", td, vx or td.node,
                  construct='vertex_index = MultiIndex.from_arrays(get_coordinates(polygons).T).drop_duplicates()')
        ok = m.has('$vseries = pandas.Series(numpy.arange(len($vindex)), index=$vindex)', '$vcoords = numpy.array($vindex.to_list())') \
            or m.has('$vseries = pandas.Series(numpy.arange(len($vindex)), index=$vindex)', '$vcoords = numpy.array($vseries.index.to_list())')
        ctx.check('R14.5', ok, "vertex k of the returned list is entry k of that table, and the join maps coordinates to those positions", td, vx or td.node,
                  construct='vertex_series = Series(arange(len(vertex_index)), index=vertex_index); vertex_coords = array(vertex_index.to_list())')
        vs = m.name('vseries')
        got = {}
        for c in calls_in(td):
            if isinstance(c.func, ast.Attribute) and c.func.attr == 'join' and c.args:
                a = c.args[0]
                on = kwarg(c, 'on')
                if isinstance(a, ast.Call) and isinstance(a.func, ast.Attribute) and a.func.attr == 'rename' and isinstance(a.func.value, ast.Name) and a.func.value.id == vs:
                    got[const_value(a.args[0], None)] = [const_value(e, None) for e in on.elts] if isinstance(on, (ast.List, ast.Tuple)) else None
        ctx.check('R14.5', got == {f"v{k}": [f"x{k}", f"y{k}"] for k in range(3)}, "v<k> is the vertex index joined on exactly [x<k>, y<k>]", td, td.node,
                  construct=f"joins {got}")
        tr = m.stmt("$triangles = $joined[['v0', 'v1', 'v2']].values")
        fa = m.stmt(f"$faces = $joined['{lab_col[0] if lab_col else 'face_indices'}'].values")
        ctx.check('R14.5', tr is not None, "the triangles returned are (v0, v1, v2) in that order", td, tr or td.node, construct="triangles = joined[['v0','v1','v2']].to_numpy()")
        ok = fa is not None and all(Matcher(ctx, td, m.bind).match('($vcoords, $triangles, $faces)', r.value) for r in td.returns()) and td.returns()
        ctx.check('R14.4', bool(ok), "the labels returned are the ones written, with the vertex list and the triangles", td, fa or td.node,
                  construct='return (vertex_coords, triangles, faces)')
        ctx.check('R14.5', vx is not None and m.name('vcoords') is not None and vs is not None, "one table serves both the vertex list and the index lookup", td, td.node,
                  construct='vertex_index -> vertex_coords, vertex_series')

    # ---- R14.2
    with ctx.section('R14.2'):
        tb = ctx.func(f"{TRI}._triangulate_polygons_by_length")
        mb = Matcher(ctx, tb)
        bflow = ctx.flow(tb)
        pp = tb.params[0]
        vcn = mb.stmt(f"$n = len({pp}[0].exterior.coords) - 1")
        ctx.check('R14.2', vcn is not None, "n = ring length minus the repeated closing point", tb, vcn or tb.node, construct='n = len(polygons[0].exterior.coords) - 1')
        c1 = mb.stmt(f"$c = shapely.get_coordinates(shapely.get_exterior_ring({pp}))")
        c2 = mb.stmt(f"$c = $c.reshape((len({pp}), $n + 1, 2))")
        c3 = mb.stmt('$c = $c[:, :-1, :]') or mb.stmt('$c = $c[:, :-1]')
        ok_c = all(x is not None for x in (c1, c2, c3)) and _line(c1) < _line(c2) < _line(c3)
        v1 = mb.stmt('$v1 = $c[:, 1:-1]') or mb.stmt('$v1 = $c[:, 1:-1, :]')
        v2 = mb.stmt('$v2 = $c[:, 2:]') or mb.stmt('$v2 = $c[:, 2:, :]')
        ok_w = v1 is not None and v2 is not None and c3 is not None and _line(v1) > _line(c3) and _line(v2) > _line(c3)
        # vertex 0 of every polygon with the vertex axis kept, as (polygon, 1, xy)
        v0 = None
        FIRST = ('$c[:, 0, :].reshape((-1, 1, 2))', '$c[:, 0].reshape((-1, 1, 2))', '$c[:, :1, :]', '$c[:, :1]', '$c[:, 0:1, :]', '$c[:, 0:1]', '$c[:, [0], :]', '$c[:, [0]]')
        for first in FIRST:
            v0 = v0 or mb.stmt(f'$v0 = numpy.repeat({first}, repeats=$$reps, axis=1)')
        ok0 = False
        if v0 is not None:
            reps = linear(bflow, mb.enodes.get('reps'), {mb.name('n'): symbol('n')})
            ok0 = reps == symbol('n') - const(2)
        st = mb.stmt('$out = numpy.stack([$v0, $v1, $v2], axis=2)')
        ok_s = st is not None and all(isinstance(r.value, ast.Name) and r.value.id == mb.name('out') for r in tb.returns()) and bool(tb.returns())
        if not (ok_c and ok_w and ok0 and ok_s) and vcn is not None and len(tb.returns()) == 1:
            # the same arrays under other names, chained differently, or the shared vertex broadcast instead of repeated:
            # the returned expression is compared with every local except n spelled out
            from .common import expand_locals as _x14
            nname = mb.name('n')
            full = _x14(bflow, tb.returns()[0].value, depth=8, keep=[nname])
            mx = Matcher(ctx, tb)
            P = f"len({pp})"
            C_FORMS = [f"shapely.get_coordinates(shapely.get_exterior_ring({pp})).reshape(({P}, {nname} + 1, 2))[:, :-1, :]",
                       f"shapely.get_coordinates(shapely.get_exterior_ring({pp})).reshape(({P}, {nname} + 1, 2))[:, :-1]",
                       f"shapely.get_coordinates(shapely.get_exterior_ring({pp})).reshape((-1, {nname} + 1, 2))[:, :-1, :]"]
            if mx.match('numpy.stack([$$a, $$l, $$t], axis=2)', full, commit=True):
                a_, l_, t_ = (mx.enodes[k] for k in ('a', 'l', 't'))
                c_txt = next((c for c in C_FORMS if norm_text(l_) in (f"{c}[:, 1:-1]", f"{c}[:, 1:-1, :]")), None)
                if c_txt is not None:
                    ok_c2 = True
                    ok_w2 = norm_text(t_) in (f"{c_txt}[:, 2:]", f"{c_txt}[:, 2:, :]")
                    firsts = [f.replace('$c', c_txt) for f in FIRST]
                    ok02 = False
                    ma = Matcher(ctx, tb)
                    for f in firsts:
                        if ma.match(f"numpy.repeat({f}, repeats=$$reps, axis=1)", a_, commit=True):
                            ok02 = linear(bflow, ma.enodes.get('reps'), {nname: symbol('n')}) == symbol('n') - const(2)
                        # broadcasting the (polygon, 1, xy) slice to (polygon, n - 2, xy) repeats it along the middle axis, and only there
                        elif ma.match(f"numpy.broadcast_to({f}, ($$p, $$reps, 2))", a_, commit=True):
                            ok02 = linear(bflow, ma.enodes.get('reps'), {nname: symbol('n')}) == symbol('n') - const(2) and norm_text(ma.enodes['p']) == P
                        if ok02:
                            break
                    ok_c, ok_w, ok0, ok_s = ok_c or ok_c2, ok_w or ok_w2, ok0 or ok02, True
                    c1 = c1 or tb.returns()[0]
        ctx.check('R14.2', ok_c, "coordinates are (polygon, vertex, xy) with the closing point dropped", tb, c1 or tb.node,
                  construct='c = get_coordinates(rings); c = c.reshape((len(polygons), n + 1, 2)); c = c[:, :-1, :]')
        ctx.check('R14.2', ok_w, "v1 = vertices [1, n-1) and v2 = vertices [2, n): equal length n-2, shifted by one", tb, v1 or tb.node,
                  construct='v1 = c[:, 1:-1]; v2 = c[:, 2:]')
        ctx.check('R14.2', ok0, "v0 = vertex 0 repeated n-2 times along the triangle axis", tb, v0 or tb.node, construct='v0 = numpy.repeat(c[:, 0, :].reshape((-1, 1, 2)), repeats=n - 2, axis=1)')
        ctx.check('R14.2', bool(ok_s), "triangle k of a polygon is (v0, v1[k], v2[k]) stacked on the vertex axis", tb, st or tb.node,
                  construct='return numpy.stack([v0, v1, v2], axis=2)')

    # ---- R14.6
    with ctx.section('R14.6'):
        tcp = ctx.func(f"{TRI}._triangulate_concave_polygon")
        mc = Matcher(ctx, tcp)
        poly = tcp.params[0]
        cnt = mc.stmt(f"$count = len({poly}.exterior.coords) - 3")
        ctx.check('R14.6', cnt is not None, "an n-gon (n+1 ring coordinates) yields n-2 triangles", tcp, cnt or tcp.node, construct='count = len(polygon.exterior.coords) - 3')
        tflow = ctx.flow(tcp)
        from .common import path_conditions, enclosing_ifs as _eifs, expand_locals as _xl14
        # the clipping loop runs while more than a triangle is left: `while len(ring coordinates) > 4`, or the same test on the open ring (> 3),
        # written in the loop header or as the loop's only `break`
        wl = None
        for n in tcp.node.body:
            if isinstance(n, ast.While) and not n.orelse:
                wl = n
        keep_going = None
        if wl is not None:
            if isinstance(wl.test, ast.Constant) and wl.test.value is True:
                brk = [st_ for st_ in wl.body if isinstance(st_, ast.If) and not st_.orelse and len(st_.body) == 1 and isinstance(st_.body[0], ast.Break)]
                if len(brk) == 1:
                    t_ = brk[0].test
                    keep_going = t_.operand if isinstance(t_, ast.UnaryOp) and isinstance(t_.op, ast.Not) else None
            else:
                keep_going = wl.test
        ok_while = False
        if isinstance(keep_going, ast.Compare) and len(keep_going.ops) == 1 and isinstance(keep_going.ops[0], ast.Gt) and isinstance(keep_going.left, ast.Call) \
                and dotted(keep_going.left.func) == 'len' and len(keep_going.left.args) == 1:
            subject = norm_text(_xl14(tflow, keep_going.left.args[0]))
            bound = const_value(keep_going.comparators[0], None)
            ok_while = (subject == f"{poly}.exterior.coords" and bound == 4) or (subject in (f"{poly}.exterior.coords[:-1]",) and bound == 3)
        ctx.check('R14.6', ok_while, "ears are clipped until a triangle remains", tcp, wl or tcp.node, construct='while len(polygon.exterior.coords) > 4: ...')
        inner = None
        if wl is not None:
            for n in ast.walk(wl):
                if isinstance(n, ast.For) and n.orelse:
                    inner = n
        # the open ring the candidates are taken from, the candidate index and the two ends of the diagonal
        coords_name = ivar = None
        ends_expr = None
        if inner is not None:
            it_ = inner.iter
            if isinstance(inner.target, ast.Name) and mc.match('range(len($coords) - 2)', it_, commit=True):
                ivar, coords_name = inner.target.id, mc.name('coords')
            elif isinstance(inner.target, ast.Tuple) and len(inner.target.elts) == 2 and all(isinstance(e, ast.Name) for e in inner.target.elts) \
                    and mc.match('enumerate(zip($coords, $coords[2:]))', it_, commit=True):
                ivar, coords_name = inner.target.elts[0].id, mc.name('coords')
                ends_expr = inner.target.elts[1].id
        ring_ok = coords_name is not None and any(
            isinstance(st_, ast.Assign) and norm_text(st_.targets[0]) == coords_name and norm_text(_xl14(tflow, st_.value)) == f"{poly}.exterior.coords[:-1]" for st_ in ast.walk(wl))
        record = mc.stmt(f"$tris[$k] = {coords_name}[{ivar}:{ivar} + 3]", within=inner) if ring_ok else None
        test_ok = False
        if record is not None:
            def ends_of(e):
                """text of the two-vertex sequence a LineString / MultiPoint is built from, when it is (coords[i], coords[i + 2])"""
                v = tflow.resolve(e)
                if isinstance(v, ast.Name) and ends_expr is not None and v.id == ends_expr:
                    return 'ends'
                if isinstance(v, (ast.List, ast.Tuple)) and [norm_text(x) for x in v.elts] == [f"{coords_name}[{ivar}]", f"{coords_name}[{ivar} + 2]"]:
                    return 'ends'
                return None
            inside = touches = False
            for t, pol in path_conditions(tcp, record):
                if not pol or not isinstance(t, ast.Call) or not isinstance(t.func, ast.Attribute):
                    continue
                if t.func.attr == 'covered_by' and len(t.args) == 1 and norm_text(t.args[0]) == poly:
                    d_ = tflow.resolve(t.func.value)
                    inside = isinstance(d_, ast.Call) and (callee(ctx, tcp, d_) or '').endswith('LineString') and len(d_.args) == 1 and ends_of(d_.args[0]) == 'ends'
                if t.func.attr == 'equals' and len(t.args) == 1 and isinstance(t.func.value, ast.Call) and isinstance(t.func.value.func, ast.Attribute) \
                        and t.func.value.func.attr == 'intersection' and len(t.func.value.args) == 1:
                    ring_ = tflow.resolve(t.func.value.func.value)
                    d_ = tflow.resolve(t.func.value.args[0])
                    e_ = tflow.resolve(t.args[0])
                    touches = (norm_text(_xl14(tflow, t.func.value.func.value)) == f"{poly}.exterior"
                               and isinstance(d_, ast.Call) and (callee(ctx, tcp, d_) or '').endswith('LineString') and len(d_.args) == 1 and ends_of(d_.args[0]) == 'ends'
                               and isinstance(e_, ast.Call) and (callee(ctx, tcp, e_) or '').endswith('MultiPoint') and len(e_.args) == 1 and ends_of(e_.args[0]) == 'ends')
            test_ok = inside and touches
        ctx.check('R14.6', test_ok, "a diagonal (i, i+2) is an ear only if it lies in the polygon and touches the ring at its end points only", tcp, record or tcp.node,
                  construct='if diagonal.covered_by(polygon) and exterior.intersection(diagonal).equals(multipoint)')
        ok = record is not None and mc.ordered(f"$tris[$k] = {coords_name}[{ivar}:{ivar} + 3]", '$k += 1',
                                                f"{poly} = Polygon({coords_name}[:{ivar} + 1] + {coords_name}[{ivar} + 2:])", 'break', within=inner)
        ctx.check('R14.6', bool(ok), "the ear (i, i+1, i+2) is recorded and vertex i+1 removed", tcp, record or tcp.node,
                  construct='triangles[k] = coords[i:i+3]; k += 1; polygon = Polygon(coords[:i+1] + coords[i+2:]); break')
        ok = (inner is not None and any(isinstance(s_, ast.Raise) for s_ in inner.orelse)
              and mc.stmt(f"$tris[$k] = {poly}.exterior.coords[:-1]") is not None
              and (mc.stmt('assert $k + 1 == $count') is not None or mc.stmt('assert $count == $k + 1') is not None)
              and all(isinstance(r.value, ast.Name) and r.value.id == mc.name('tris') for r in tcp.returns()))
        ctx.check('R14.6', ok, "the last triangle is the remaining ring; a polygon with no ear raises; the count is asserted", tcp, tcp.node,
                  construct='for ... else: raise; triangles[k] = polygon.exterior.coords[:-1]; assert k + 1 == count')
        # every triangle of the result is either a tested ear or the last remaining ring: one exit, after the loop,
        # and no other store into the result array
        tris = mc.name('tris')
        stores = [n for n in walk_no_nested(tcp.node) if isinstance(n, ast.Assign) and any(isinstance(t, ast.Subscript) and isinstance(t.value, ast.Name) and t.value.id == tris for t in n.targets)]
        rets = tcp.returns()

        def after_loop(node):
            return wl is not None and node.lineno > wl.end_lineno and not _eifs(tcp, node)
        ok = (wl is not None and len(rets) == 1 and after_loop(rets[0])
              and len(stores) == 2 and record is not None and test_ok and sum(1 for st_ in stores if st_ is record) == 1
              and sum(1 for st_ in stores if after_loop(st_)) == 1)
        ctx.check('R14.6', ok, "every triangle returned was either accepted by the ear test or is the final remaining triangle: the only exit follows the clipping loop and nothing else writes the result",
                  tcp, rets[0] if rets else tcp.node, construct=f"{len(rets)} exit(s); stores into the result: {[norm_text(s_)[:50] for s_ in stores]}")


# --------------------------------------------------------------------------- checker self-test
from ..variants import V  # noqa: E402

_T = 'src/emsarray/operations/triangulate.py'
VARIANTS = [
    V('C14', 'repeated-vertices-kept', 'src/emsarray/operations/triangulate.py', "    polygons = shapely.remove_repeated_points(dataset.ems.polygons)", "    polygons = dataset.ems.polygons", 'R14.1'),
    V('C14', 'zero-other-index-set', _T, "    polygon_length[polygon_is_concave] = 0", "    polygon_length[polygon_is_concave[:-1]] = 0", 'R14.1'),
    V('C14', 'ear-loop-other-set', _T, "    for face_index in polygon_is_concave:", "    for face_index in numpy.flatnonzero(convex_hull_length < polygon_length):", 'R14.1'),
    V('C14', 'v2-window-short', _T, "    v2 = coordinates[:, 2:]", "    v2 = coordinates[:, 1:-1]", 'R14.2'),
    V('C14', 'v0-repeats-off', _T, "        repeats=vertex_count - 2,", "        repeats=vertex_count - 1,", 'R14.2'),
    V('C14', 'closing-point-kept', _T, "    coordinates = coordinates[:, :-1, :]\n", "", 'R14.2'),
    V('C14', 'labels-from-enumerate', _T, "        for face_index, triangles in zip(same_length_face_indices, vertex_triangles):", "        for face_index, triangles in enumerate(vertex_triangles):", 'R14.3'),
    V('C14', 'ear-label-shifted', _T, "        triangles = _triangulate_concave_polygon(polygon)\n        _add_triangles(int(face_index), triangles)", "        triangles = _triangulate_concave_polygon(polygon)\n        _add_triangles(int(face_index) + 1, triangles)", 'R14.3'),
    V('C14', 'count-off', _T, "    total_triangles = numpy.sum(polygon_length[numpy.nonzero(polygon_length)] - 3)", "    total_triangles = numpy.sum(polygon_length[numpy.nonzero(polygon_length)] - 2)", 'R14.4'),
    V('C14', 'join-crossed', _T, "        .join(vertex_series.rename('v1'), on=['x1', 'y1'])\\", "        .join(vertex_series.rename('v1'), on=['x1', 'y0'])\\", 'R14.5'),
    V('C14', 'column-crossed', _T, "        'y1': pandas.Series(triangle_coords[:, 1, 1]),", "        'y1': pandas.Series(triangle_coords[:, 2, 1]),", 'R14.5'),
    V('C14', 'no-dedupe', _T, "    vertex_index = pandas.MultiIndex.from_arrays(all_coords.T).drop_duplicates()", "    vertex_index = pandas.MultiIndex.from_arrays(all_coords.T)", 'R14.5'),
    V('C14', 'hull-area-test', _T, "    polygon_is_concave = numpy.flatnonzero(convex_hull_length != polygon_length)", "    polygon_is_concave = numpy.flatnonzero(~numpy.isclose(shapely.area(convex_hulls), shapely.area(polygons), equal_nan=True))", 'R14.1'),
    V('C14', 'ear-test-weakened', _T, "                diagonal.covered_by(polygon)\n", "                diagonal.intersects(polygon)\n", 'R14.6'),
    # benign
    V('C14', 'benign-rename-locals', _T, "    polygon_is_concave = numpy.flatnonzero(convex_hull_length != polygon_length)\n\n    # Categorize each polygon by length, skipping concave polygons.\n    # We will handle them separately.\n    polygon_length[polygon_is_concave] = 0",
      "    concave_cells = numpy.flatnonzero(convex_hull_length != polygon_length)\n    polygon_is_concave = concave_cells\n    polygon_length[concave_cells] = 0", None),
]
