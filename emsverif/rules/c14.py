"""C14 - triangulation: dispatch, pairing and counting only."""
from __future__ import annotations

import ast

from ..linear import Lin, const, linear, symbol
from ..model import AnalysisError, const_value, dotted, kwarg, norm_text, walk_no_nested
from ..report import Context
from .common import calls_in, callee, enclosing_ifs, is_none, method_calls

TRI = 'emsarray.operations.triangulate'


def run(ctx: Context) -> None:
    p = ctx.p
    ctx.rule('R14.1', "partition: the cells removed from the bulk (fan) path are exactly the cells sent to ear clipping, chosen by comparing each polygon's vertex count with its convex hull's; cells of length 0 (no geometry) are skipped; every other cell is fanned in the batch of its own length", floor=7)
    ctx.rule('R14.2', "fan windows: with n vertices after dropping the closing point, v0 is vertex 0 repeated n-2 times, v1 = [1, n-1) and v2 = [2, n): n-2 triangles (v0, v_k, v_k+1)", floor=5)
    ctx.rule('R14.3', "labels: every batch of triangles is labelled with the face index taken from the same index array that gathered its polygons; the ear path labels with its loop index", floor=4)
    ctx.rule('R14.4', "accounting: storage is preallocated for (length - 3) triangles per cell with geometry, written through one cursor, and the cursor is asserted to reach that total", floor=5)
    ctx.rule('R14.5', "vertex columns pair up: x<k>, y<k> come from triangle vertex k, v<k> is joined on exactly [x<k>, y<k>]; the vertex table is the de-duplicated coordinate list and is what the indexes refer to", floor=6)
    ctx.rule('R14.6', "ear clipping: a diagonal (i, i+2) is accepted only if it is covered by the polygon and meets the ring at its two end points only; the ear (i, i+1, i+2) is recorded and vertex i+1 removed; n-3 ears plus the final triangle", floor=5)
    ctx.assume("NOT decided: containment, non-overlap and exact cover of the triangles (GEOS geometry at run time); pandas de-duplication and joins")

    td = ctx.func(f"{TRI}.triangulate_dataset")
    flow = ctx.flow(td)

    def assign_of(name):
        return [n for n in walk_no_nested(td.node) if isinstance(n, ast.Assign) and norm_text(n.targets[0]) == name]

    # ---- R14.1
    pl = assign_of('polygon_length')
    ok = len(pl) == 1 and norm_text(pl[0].value) == 'shapely.get_num_coordinates(polygons)'
    ctx.check('R14.1', ok, "polygon_length is the coordinate count of every cell (0 for cells without geometry)", td, pl[0] if pl else td.node)
    pol = assign_of('polygons')
    ok = len(pol) == 1 and norm_text(pol[0].value) == f"{td.params[0]}.ems.polygons"
    ctx.check('R14.1', ok, "the cells are dataset.ems.polygons (index = linear index)", td, pol[0] if pol else td.node)
    conc = assign_of('polygon_is_concave')
    hulls = assign_of('convex_hulls')
    hl = assign_of('convex_hull_length')
    ok = (len(conc) == 1 and norm_text(conc[0].value) == 'numpy.flatnonzero(convex_hull_length != polygon_length)'
          and len(hulls) == 1 and norm_text(hulls[0].value) == 'shapely.convex_hull(polygons)'
          and len(hl) == 1 and norm_text(hl[0].value) == 'shapely.get_num_coordinates(convex_hulls)')
    ctx.check('R14.1', ok, "a cell is concave (or has collinear vertices) iff its convex hull has a different vertex count", td, conc[0] if conc else td.node,
              construct=f"polygon_is_concave = {norm_text(conc[0].value) if conc else '?'}")
    zero = [n for n in walk_no_nested(td.node) if isinstance(n, ast.Assign) and isinstance(n.targets[0], ast.Subscript)
            and norm_text(n.targets[0].value) == 'polygon_length']
    ok = len(zero) == 1 and norm_text(zero[0].targets[0].slice) == 'polygon_is_concave' and const_value(zero[0].value, None) == 0
    ctx.check('R14.1', ok, "exactly those cells are removed from the fan path (their length is set to 0)", td, zero[0] if zero else td.node)
    loops = [n for n in walk_no_nested(td.node) if isinstance(n, ast.For)]
    ear = [l for l in loops if norm_text(l.iter) == 'polygon_is_concave']
    ok = len(ear) == 1 and bool(zero) and bool(conc) and zero[0].lineno > conc[0].lineno and ear[0].lineno > zero[0].lineno
    ctx.check('R14.1', ok, "and exactly those cells are iterated by the ear clipping path (same index array)", td, ear[0] if ear else td.node,
              construct=f"ear loop over {norm_text(ear[0].iter) if ear else '?'}")
    ul = assign_of('unique_lengths')
    bulk = [l for l in loops if norm_text(l.iter) == 'unique_lengths']
    ok = (len(ul) == 1 and norm_text(ul[0].value) == 'numpy.unique(polygon_length)' and bool(zero) and ul[0].lineno > zero[0].lineno and len(bulk) == 1)
    ctx.check('R14.1', ok, "the fan path visits every remaining distinct length once (computed after the concave cells were removed)", td, ul[0] if ul else td.node)
    if bulk:
        first = bulk[0].body[0] if bulk[0].body else None
        ok = isinstance(first, ast.If) and norm_text(first.test) == 'unique_length == 0' and any(isinstance(s, ast.Continue) for s in first.body)
        ctx.check('R14.1', ok, "length 0 (no geometry, or handled elsewhere) is skipped", td, first or bulk[0])
        sel = [n for n in ast.walk(bulk[0]) if isinstance(n, ast.Assign) and norm_text(n.targets[0]) == 'same_length_face_indices']
        ok = len(sel) == 1 and norm_text(sel[0].value) == 'numpy.flatnonzero(polygon_length == unique_length)'
        ctx.check('R14.1', ok, "a batch is all cells of exactly that length", td, sel[0] if sel else bulk[0])
        # ---- R14.3
        gat = [n for n in ast.walk(bulk[0]) if isinstance(n, ast.Assign) and norm_text(n.targets[0]) == 'same_length_polygons']
        tri = [n for n in ast.walk(bulk[0]) if isinstance(n, ast.Assign) and norm_text(n.targets[0]) == 'vertex_triangles']
        ok = (len(gat) == 1 and norm_text(gat[0].value) == 'polygons[same_length_face_indices]'
              and len(tri) == 1 and norm_text(tri[0].value) == '_triangulate_polygons_by_length(same_length_polygons)')
        ctx.check('R14.3', ok, "the batch's polygons are gathered with the batch's own index array and fanned together", td, gat[0] if gat else bulk[0])
        inner = [n for n in ast.walk(bulk[0]) if isinstance(n, ast.For) and n is not bulk[0]]
        ok = (len(inner) == 1 and norm_text(inner[0].iter) == 'zip(same_length_face_indices, vertex_triangles)'
              and norm_text(inner[0].target) == '(face_index, triangles)'
              and any(norm_text(s) == '_add_triangles(int(face_index), triangles)' for s in inner[0].body))
        ctx.check('R14.3', ok, "triangles are labelled by zipping that same index array with the fan result", td, inner[0] if inner else bulk[0])
    if ear:
        body = [norm_text(s) for s in ear[0].body]
        ok = body == ['polygon = polygons[face_index]', 'triangles = _triangulate_concave_polygon(polygon)', '_add_triangles(int(face_index), triangles)'] \
            and norm_text(ear[0].target) == 'face_index'
        ctx.check('R14.3', ok, "the ear path triangulates polygons[i] and labels the result with that same i", td, ear[0], construct=f"ear loop body {body}")
    add = p.functions.get(f"{td.qualname}.<locals>._add_triangles")
    ctx.need('R14.4', add is not None, "triangulate_dataset writes triangles through one helper", td)
    body = [norm_text(s) for s in add.body if not isinstance(s, ast.Nonlocal)]
    ok = body == ['current_length = len(vertex_triangles)', 'face_indices[current_face:current_face + current_length] = face_index',
                  'triangle_coords[current_face:current_face + current_length] = vertex_triangles', 'current_face += current_length']
    ctx.check('R14.3', ok, "labels and coordinates of a batch are written to the same rows, then the cursor advances by the batch size", add, add.node,
              construct=f"_add_triangles: {body}")
    # ---- R14.4
    tt = assign_of('total_triangles')
    ok = len(tt) == 1 and norm_text(tt[0].value) == 'numpy.sum(polygon_length[numpy.nonzero(polygon_length)] - 3)' and bool(zero) and tt[0].lineno < zero[0].lineno
    ctx.check('R14.4', ok, "total = sum over cells with geometry of (coordinate count - 3) = n - 2 triangles per n-gon, counted before concave cells are zeroed", td,
              tt[0] if tt else td.node, construct=f"total_triangles = {norm_text(tt[0].value) if tt else '?'}")
    fi_alloc = assign_of('face_indices')
    tc_alloc = assign_of('triangle_coords')
    ok = (len(fi_alloc) == 1 and norm_text(fi_alloc[0].value) == 'numpy.empty(total_triangles, dtype=int)'
          and len(tc_alloc) == 1 and norm_text(tc_alloc[0].value) == 'numpy.empty((total_triangles, 3, 2), dtype=float)')
    ctx.check('R14.4', ok, "labels and (triangle, vertex, xy) coordinates are preallocated for that total", td, fi_alloc[0] if fi_alloc else td.node)
    cur = assign_of('current_face')
    ok = len(cur) == 1 and const_value(cur[0].value, None) == 0
    ctx.check('R14.4', ok, "the write cursor starts at 0", td, cur[0] if cur else td.node)
    asserts = [n for n in walk_no_nested(td.node) if isinstance(n, ast.Assert)]
    ok = any(norm_text(a.test) == 'current_face == total_triangles' for a in asserts) and \
        all(a.lineno > max((l.lineno for l in loops), default=0) for a in asserts if norm_text(a.test) == 'current_face == total_triangles')
    ctx.check('R14.4', ok, "after both paths the cursor is asserted to equal the preallocated total", td, asserts[0] if asserts else td.node)
    ok = all(norm_text(r.value) == '(vertex_coords, triangles, faces)' for r in td.returns()) and td.returns()
    fa = assign_of('faces')
    ok = ok and len(fa) == 1 and norm_text(fa[0].value) == "joined_df['face_indices'].to_numpy()"
    ctx.check('R14.4', bool(ok), "the labels returned are the ones written", td, fa[0] if fa else td.node)

    # ---- R14.5
    df = [c for c in calls_in(td) if (callee(ctx, td, c) or '').endswith('pandas.DataFrame')]
    cols = {}
    if len(df) == 1 and df[0].args and isinstance(df[0].args[0], ast.Dict):
        for k, v in zip(df[0].args[0].keys, df[0].args[0].values):
            inner = v.args[0] if isinstance(v, ast.Call) and v.args else v
            cols[const_value(k, None)] = norm_text(inner)
    want = {'face_indices': 'face_indices'}
    for k in range(3):
        want[f"x{k}"] = f"triangle_coords[:, {k}, 0]"
        want[f"y{k}"] = f"triangle_coords[:, {k}, 1]"
    ctx.check('R14.5', cols == want, "x<k> / y<k> are coordinate 0 / 1 of triangle vertex k", td, df[0] if df else td.node, construct=f"frame columns {cols}")
    joins = [c for c in method_calls(td, 'join')]
    got = {}
    for c in joins:
        a = c.args[0] if c.args else None
        on = kwarg(c, 'on')
        if isinstance(a, ast.Call) and isinstance(a.func, ast.Attribute) and a.func.attr == 'rename' and norm_text(a.func.value) == 'vertex_series':
            got[const_value(a.args[0], None)] = [const_value(e, None) for e in on.elts] if isinstance(on, (ast.List, ast.Tuple)) else None
    ctx.check('R14.5', got == {f"v{k}": [f"x{k}", f"y{k}"] for k in range(3)}, "v<k> is the vertex index joined on exactly [x<k>, y<k>]", td,
              joins[0] if joins else td.node, construct=f"joins {got}")
    tr = [n for n in td.body if isinstance(n, ast.Assign) and norm_text(n.targets[0]) == 'triangles']
    ok = len(tr) == 1 and norm_text(tr[0].value) == "joined_df[['v0', 'v1', 'v2']].to_numpy()"
    ctx.check('R14.5', ok, "the triangles returned are (v0, v1, v2) in that order", td, tr[0] if tr else td.node)
    vi = assign_of('vertex_index')
    vs = assign_of('vertex_series')
    vc = assign_of('vertex_coords')
    ac = assign_of('all_coords')
    ok = (len(ac) == 1 and norm_text(ac[0].value) == 'shapely.get_coordinates(polygons)'
          and len(vi) == 1 and norm_text(vi[0].value) == 'pandas.MultiIndex.from_arrays(all_coords.T).drop_duplicates()')
    ctx.check('R14.5', ok, "the vertex table is every polygon coordinate, de-duplicated (x, y) pairs", td, vi[0] if vi else td.node)
    ok = (len(vs) == 1 and norm_text(vs[0].value) == 'pandas.Series(numpy.arange(len(vertex_index)), index=vertex_index)'
          and len(vc) == 1 and norm_text(vc[0].value) == 'numpy.array(vertex_index.to_list())')
    ctx.check('R14.5', ok, "vertex k of the returned list is entry k of that table, and the join maps coordinates to those positions", td, vs[0] if vs else td.node)
    ctx.check('R14.5', bool(vi) and bool(vc) and bool(vs), "one table serves both the vertex list and the index lookup", td, td.node, construct='vertex_index -> vertex_coords, vertex_series')

    # ---- R14.2
    tb = ctx.func(f"{TRI}._triangulate_polygons_by_length")
    bflow = ctx.flow(tb)

    def bassign(name):
        return [n for n in walk_no_nested(tb.node) if (isinstance(n, ast.Assign) and norm_text(n.targets[0]) == name)
                or (isinstance(n, ast.AnnAssign) and n.value is not None and norm_text(n.target) == name)]

    vcn = bassign('vertex_count')
    ok = len(vcn) == 1 and norm_text(vcn[0].value) == f"len({tb.params[0]}[0].exterior.coords) - 1"
    ctx.check('R14.2', ok, "n = ring length minus the repeated closing point", tb, vcn[0] if vcn else tb.node)
    co = bassign('coordinates')
    texts = [norm_text(c.value) for c in co]
    ok = (len(co) == 3 and texts[0] == f"shapely.get_coordinates(shapely.get_exterior_ring({tb.params[0]}))"
          and texts[1] == f"coordinates.reshape((len({tb.params[0]}), vertex_count + 1, 2))" and texts[2] == 'coordinates[:, :-1, :]')
    ctx.check('R14.2', ok, "coordinates are (polygon, vertex, xy) with the closing point dropped", tb, co[0] if co else tb.node, construct=f"coordinates: {texts}")
    v0, v1, v2 = bassign('v0'), bassign('v1'), bassign('v2')
    env = {'vertex_count': symbol('n')}
    ok1 = len(v1) == 1 and norm_text(v1[0].value) == 'coordinates[:, 1:-1]'
    ok2 = len(v2) == 1 and norm_text(v2[0].value) == 'coordinates[:, 2:]'
    ctx.check('R14.2', ok1 and ok2, "v1 = vertices [1, n-1) and v2 = vertices [2, n): equal length n-2, shifted by one", tb, v1[0] if v1 else tb.node,
              construct=f"v1 = {norm_text(v1[0].value) if v1 else '?'}; v2 = {norm_text(v2[0].value) if v2 else '?'}")
    ok0 = False
    if len(v0) == 1 and isinstance(v0[0].value, ast.Call) and callee(ctx, tb, v0[0].value) == 'numpy.repeat':
        c = v0[0].value
        reps = linear(bflow, kwarg(c, 'repeats') or (c.args[1] if len(c.args) > 1 else None), env)
        ok0 = (norm_text(c.args[0]) == 'coordinates[:, 0, :].reshape((-1, 1, 2))' and reps == symbol('n') - const(2)
               and const_value(kwarg(c, 'axis') or (c.args[2] if len(c.args) > 2 else None), None) == 1)
    ctx.check('R14.2', ok0, "v0 = vertex 0 repeated n-2 times along the triangle axis", tb, v0[0] if v0 else tb.node)
    st = bassign('triangles')
    ok = False
    if len(st) == 1:
        ok = norm_text(st[0].value) == 'numpy.stack([v0, v1, v2], axis=2)' and all(norm_text(r.value) == 'triangles' for r in tb.returns())
    ctx.check('R14.2', ok, "triangle k of a polygon is (v0, v1[k], v2[k]) stacked on the vertex axis", tb, st[0] if st else tb.node)

    # ---- R14.6
    tcp = ctx.func(f"{TRI}._triangulate_concave_polygon")
    txt = ' '.join(norm_text(s) for s in tcp.body)
    cnt = [n for n in walk_no_nested(tcp.node) if isinstance(n, ast.Assign) and norm_text(n.targets[0]) == 'triangle_count']
    ok = len(cnt) == 1 and norm_text(cnt[0].value) == f"len({tcp.params[0]}.exterior.coords) - 3"
    ctx.check('R14.6', ok, "an n-gon (n+1 ring coordinates) yields n-2 triangles", tcp, cnt[0] if cnt else tcp.node)
    wl = [n for n in walk_no_nested(tcp.node) if isinstance(n, ast.While)]
    ok = len(wl) == 1 and norm_text(wl[0].test) == f"len({tcp.params[0]}.exterior.coords) > 4"
    ctx.check('R14.6', ok, "ears are clipped until a triangle remains", tcp, wl[0] if wl else tcp.node)
    tests = [n for n in ast.walk(tcp.node) if isinstance(n, ast.If) and 'covered_by' in norm_text(n.test)]
    ok = len(tests) == 1 and norm_text(tests[0].test) == 'diagonal.covered_by(polygon) and exterior.intersection(diagonal).equals(multipoint)'
    ok = ok and 'vertices = [coords[i], coords[i + 2]]' in txt and 'diagonal = LineString(vertices)' in txt and 'multipoint = MultiPoint(vertices)' in txt
    ctx.check('R14.6', ok, "a diagonal (i, i+2) is an ear only if it lies in the polygon and touches the ring at its end points only", tcp, tests[0] if tests else tcp.node)
    if tests:
        body = [norm_text(s) for s in tests[0].body]
        ok = body == ['triangles[triangle_index] = coords[i:i + 3]', 'triangle_index += 1', 'polygon = Polygon(coords[:i + 1] + coords[i + 2:])', 'break']
        ctx.check('R14.6', ok, "the ear (i, i+1, i+2) is recorded and vertex i+1 removed", tcp, tests[0], construct=f"ear body {body}")
    ok = ('triangles[triangle_index] = polygon.exterior.coords[:-1]' in txt and 'assert triangle_index + 1 == triangle_count' in txt
          and any(isinstance(n, ast.For) and n.orelse and any(isinstance(s, ast.Raise) for s in n.orelse) for n in ast.walk(tcp.node)))
    ctx.check('R14.6', ok, "the last triangle is the remaining ring; a polygon with no ear raises; the count is asserted", tcp, tcp.node)


# --------------------------------------------------------------------------- checker self-test
from ..variants import V  # noqa: E402

_T = 'src/emsarray/operations/triangulate.py'
VARIANTS = [
    V('C14', 'zero-other-index-set', _T, "    polygon_length[polygon_is_concave] = 0", "    polygon_length[polygon_is_concave[:-1]] = 0", 'R14.1'),
    V('C14', 'ear-loop-other-set', _T, "    for face_index in polygon_is_concave:", "    for face_index in numpy.flatnonzero(convex_hull_length < polygon_length):", 'R14.1'),
    V('C14', 'v2-window-short', _T, "    v2 = coordinates[:, 2:]", "    v2 = coordinates[:, 1:-1]", 'R14.2'),
    V('C14', 'v0-repeats-off', _T, "        repeats=vertex_count - 2,", "        repeats=vertex_count - 1,", 'R14.2'),
    V('C14', 'closing-point-kept', _T, "    coordinates = coordinates[:, :-1, :]\n", "", 'R14.2'),
    V('C14', 'labels-from-enumerate', _T, "        for face_index, triangles in zip(same_length_face_indices, vertex_triangles):", "        for face_index, triangles in enumerate(vertex_triangles):", 'R14.3'),
    V('C14', 'ear-label-shifted', _T, "        triangles = _triangulate_concave_polygon(polygon)\n        _add_triangles(int(face_index), triangles)", "        triangles = _triangulate_concave_polygon(polygon)\n        _add_triangles(int(face_index) + 1, triangles)", 'R14.3'),
    V('C14', 'count-off', _T, "    total_triangles = numpy.sum(polygon_length[numpy.nonzero(polygon_length)] - 3)", "    total_triangles = numpy.sum(polygon_length[numpy.nonzero(polygon_length)] - 2)", 'R14.4'),
    V('C14', 'join-crossed', _T, "        .join(vertex_series.rename('v1'), on=['x1', 'y1'])\\", "        .join(vertex_series.rename('v1'), on=['x1', 'y0'])\\", 'R14.5'),
    V('C14', 'column-crossed', _T, "        'y1': pandas.Series(triangle_coords[:, 1, 1]),", "        'y1': pandas.Series(triangle_coords[:, 2, 1]),", 'R14.5'),
    V('C14', 'no-dedupe', _T, "    vertex_index = pandas.MultiIndex.from_arrays(all_coords.T).drop_duplicates()", "    vertex_index = pandas.MultiIndex.from_arrays(all_coords.T)", 'R14.5'),
    V('C14', 'hull-area-test', _T, "    polygon_is_concave = numpy.flatnonzero(convex_hull_length != polygon_length)", "    polygon_is_concave = numpy.flatnonzero(~numpy.isclose(shapely.area(convex_hulls), shapely.area(polygons), equal_nan=True))", 'R14.1'),
    V('C14', 'ear-test-weakened', _T, "                diagonal.covered_by(polygon)\n", "                diagonal.intersects(polygon)\n", 'R14.6'),
]
