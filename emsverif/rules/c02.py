"""C02 - one linear order is shared by polygons, centres, flattened data and selectors."""
from __future__ import annotations

import ast

from ..axes import Arr, Case, DataArrayVal, Leaf, Polygons, Top, fix, leaves, merged_order
from ..linear import Lin, const, symbol
from ..model import AnalysisError, const_value, dotted, kwarg, norm_text, walk_no_nested
from ..report import Context
from .common import arg_or_kw, calls_in, callee, enclosing_ifs, is_none, method_calls
from .geomcommon import (
    ARAKAWA, GRID, grid_dimension_handles, interpret, offset_of, size_sym, topology_shape,
)

BASE = 'emsarray.conventions._base.Convention'
UGRID = 'emsarray.conventions.ugrid'
UTILS = 'emsarray.utils'


def polygon_builder_facts(ctx: Context):
    """Interpret the three grid polygon builders. Returns list of dicts (one per builder)."""
    Y, X = size_sym('y_dimension'), size_sym('x_dimension')
    J, I = size_sym('node.j_dimension'), size_sym('node.i_dimension')
    out = []
    shape_fi, shape = topology_shape(ctx, f"{GRID}.CFGridTopology")
    specs = [
        (f"{GRID}.CFGrid1D._make_polygons",
         {'self.topology.longitude_bounds': ('lon_bounds', [X, const(2)]), 'self.topology.latitude_bounds': ('lat_bounds', [Y, const(2)])},
         {'self.topology.shape': shape} if shape else {}, ('lon_bounds', 'lat_bounds'), [Y, X], 'bounds-1d'),
        (f"{GRID}.CFGrid2D._make_polygons",
         {'self.topology.longitude_bounds': ('lon_bounds', [Y, X, const(4)]), 'self.topology.latitude_bounds': ('lat_bounds', [Y, X, const(4)])},
         {}, ('lon_bounds', 'lat_bounds'), [Y, X], 'bounds-2d'),
        (f"{ARAKAWA}.ArakawaC._make_polygons",
         {'self.node.longitude': ('node_lon', [J, I]), 'self.node.latitude': ('node_lat', [J, I])},
         {}, ('node_lon', 'node_lat'), [J - const(1), I - const(1)], 'nodes'),
    ]
    for qual, table, shapes, (lon_src, lat_src), want_sizes, kind in specs:
        fi = ctx.func(qual)
        it, src = interpret(ctx, fi, table, shapes)
        val = it.returns[0][1] if it.returns else None
        pts = val.points if isinstance(val, Polygons) else None
        # a builder may bind the polygons to a name first
        out.append(dict(fi=fi, interp=it, sources=src, points=pts, value=val, lon=lon_src, lat=lat_src,
                        want=want_sizes, kind=kind, ret=it.returns[0][0] if it.returns else fi.node, shape_fi=shape_fi))
    return out


def run(ctx: Context) -> None:
    p = ctx.p
    base = p.cls(BASE)
    ctx.rule('R02.1', "flattening, selection and index conversion all use the one sequence grid_dimensions[kind] through order preserving operations (facts shared with C01/C03/C05)", floor=20)
    ctx.rule('R02.2', "polygon order equals index order: the points array handed to make_polygons_with_holes has axes (first grid dimension x second grid dimension merged row-major, corner, xy) and each cell's coordinates are indexed by that cell's own position", floor=11)
    ctx.rule('R02.3', "gather / scatter pairing: the rows gathered and the output slots written are the same index array, into an array with one slot per cell (holes keep their slot)", floor=7)
    ctx.rule('R02.4', "face centres are produced in the same order: meshgrid/flatten row-major, ravel of the face coordinates, unpermuted face_x/face_y, or one in-order pass over polygons", floor=6)
    ctx.rule('R02.5', "the spatial index and the validity mask are built over the full polygon array in order; publishing the polygons does not compact or reorder them", floor=4)
    ctx.rule('R02.6', "the polygon at n is built from cell n's own coordinates: stored bounds are accepted only in the grid's dimension order and synthesised bounds are laid out in it; invalid polygons are located by positions in the full array (facts shared with C06 R06.3 / R06.6)", floor=20)
    from .common import adopt_foundations as _adopt
    _adopt(ctx, 'R02.7', ['order', 'topology'], floor=60)
    ctx.assume("numpy stack/broadcast_to/transpose/reshape(C order) semantics; shapely.polygons(indices=, out=) writes geometry k to out[indices[k]]; STRtree returns positions in its input array")
    ctx.assume("Arakawa C node arrays have one more row and column than the face grid, in the same dimension order (not checked by the code)")

    from . import c06 as _c06
    from .common import share_obligations as _share
    _share(ctx, _c06, {'R06.3', 'R06.6'}, 'R02.6')

    # ------------------------------------------------------------------ R02.1 (shared facts)
    with ctx.section('R02.1 (shared facts)'):
        from . import c01, c03, c05
        shared = [(c01, {'R01.2'}), (c03, {'R03.1', 'R03.3'}), (c05, {'R05.1'})]
        from .common import share_obligations
        for mod, rules in shared:
            share_obligations(ctx, mod, rules, 'R02.1')

    # ------------------------------------------------------------------ R02.2
    with ctx.section('R02.2'):
        cf_handles = grid_dimension_handles(ctx, f"{GRID}.CFGrid")
        gd = ctx.func(f"{GRID}.CFGrid.grid_dimensions")
        ctx.check('R02.2', cf_handles == ['y_dimension', 'x_dimension'], "CF grid_dimensions[face] = [topology.y_dimension, topology.x_dimension]", gd, gd.node,
                  construct=f"grid_dimensions face = {cf_handles}")
        for fact in polygon_builder_facts(ctx):
            fi, pts = fact['fi'], fact['points']
            if fact['kind'] == 'bounds-1d':
                sh = fact['interp'].env.get('y_size'), fact['interp'].env.get('x_size')
                ctx.check('R02.2', fact['sources'].shapes.get('self.topology.shape') == [size_sym('y_dimension'), size_sym('x_dimension')],
                          "topology.shape is (size of y_dimension, size of x_dimension)", fact['shape_fi'] or fi, (fact['shape_fi'] or fi).node,
                          construct=f"CFGridTopology.shape = {[s.show() for s in fact['sources'].shapes.get('self.topology.shape', [])]}")
            if not isinstance(pts, Arr):
                why = pts.why if isinstance(pts, Top) else ('no make_polygons_with_holes(points) result is returned' if pts is None else repr(pts))
                tops = [t for t in fact['interp'].trace if 'TOP' in t]
                ctx.check('R02.2', False, "the points array can be derived as (cells, corner, xy)", fi, fact['ret'],
                          construct=f"{fi.short}: points array not derivable: {why}", detail='; '.join(tops[:3]))
                continue
            ok_rank = pts.ndim == 3 and bool(pts.axes[0].merged) and pts.axes[1].size == const(4) and pts.axes[2].size == const(2)
            ctx.check('R02.2', ok_rank, "points has shape (cells, 4, 2) with the cell axis merged from the grid axes", fi, fact['ret'],
                      construct=f"{fi.short}: points shape {pts.show()}")
            if not ok_rank:
                continue
            order = merged_order(pts.axes[0])
            ok_order = len(order) == 2 and [a.size for a in order] == fact['want']
            ctx.check('R02.2', ok_order, "cells are merged row-major over (first grid dimension, second grid dimension)", fi, fact['ret'],
                      construct=f"{fi.short}: merge order {[a.show() for a in order]} (wanted {[w.show() for w in fact['want']]})")
            if len(order) != 2:
                continue
            ay, ax = order
            c_ax, k_ax = pts.axes[1], pts.axes[2]
            own = True
            detail = ''
            for c in range(4):
                for k in range(2):
                    ls = leaves(fix(fix(pts.body, c_ax.key, c), k_ax.key, k))
                    if not ls:
                        own, detail = False, f"corner {c} slot {k} has no source"
                    for lf in ls:
                        if fact['kind'] == 'bounds-1d':
                            want_key = ax.key if k == 0 else ay.key
                            if offset_of(lf.index[0], want_key) != 0:
                                own, detail = False, f"corner {c} slot {k}: {lf.src} is indexed by {lf.index[0].show()}, not by its own {'column' if k == 0 else 'row'}"
                        elif fact['kind'] == 'bounds-2d':
                            if offset_of(lf.index[0], ay.key) != 0 or offset_of(lf.index[1], ax.key) != 0:
                                own, detail = False, f"corner {c} slot {k}: {lf.src} indexed by ({lf.index[0].show()}, {lf.index[1].show()})"
                        else:
                            oy, ox = offset_of(lf.index[0], ay.key), offset_of(lf.index[1], ax.key)
                            if oy not in (0, 1) or ox not in (0, 1):
                                own, detail = False, f"corner {c} slot {k}: node ({lf.index[0].show()}, {lf.index[1].show()}) is not one of the cell's four surrounding nodes"
            ctx.check('R02.2', own, "every cell's coordinates are read at that cell's own (row, column)", fi, fact['ret'],
                      construct=f"{fi.short}: element provenance", detail=detail)

    # ------------------------------------------------------------------ R02.3
    with ctx.section('R02.3'):
        ug = ctx.func(f"{UGRID}.UGrid._make_polygons")
        flow = ctx.flow(ug)
        sp = [c for c in calls_in(ug, nested=True) if callee(ctx, ug, c) == 'shapely.polygons']
        ctx.need('R02.3', len(sp) == 1, "UGrid._make_polygons builds polygons with shapely.polygons", ug)
        sc = sp[0]
        idx = kwarg(sc, 'indices')
        out = kwarg(sc, 'out')
        ctx.need('R02.3', idx is not None and out is not None and sc.args, "shapely.polygons is called with coordinates, indices= and out=", ug)
        # the coordinates are gathered with that same index array as row selector
        rows_ok = False
        gathers = [n for n, _ in flow.expand(sc.args[0]) if isinstance(n, ast.Subscript) and isinstance(n.slice, ast.Tuple) and len(n.slice.elts) == 2]
        for g in gathers:
            if flow.canon(g.slice.elts[0]) == flow.canon(idx):
                col = g.slice.elts[1]
                rows_ok = isinstance(col, ast.Slice) and col.lower is None and col.upper is not None
                base_arr = flow.resolve(g.value)
                rows_ok = rows_ok and flow.reaches(g.value, lambda n: isinstance(n, ast.Attribute) and n.attr == 'face_node_array')
        ctx.check('R02.3', rows_ok, "the face rows gathered are selected by the same index array that is passed as indices=", ug, sc,
                  construct=f"indices={norm_text(idx)}; gathers {[norm_text(g)[:60] for g in gathers]}")
        iv = flow.resolve(idx)
        ok_idx = isinstance(iv, ast.Call) and callee(ctx, ug, iv) == 'numpy.flatnonzero'
        ctx.check('R02.3', ok_idx, "the index array is flatnonzero(<per-face vertex count == this size>): ascending face indexes", ug, sc,
                  construct=f"indices = {norm_text(iv)}")
        ov = flow.resolve(out)
        ok_out = (isinstance(ov, ast.Call) and callee(ctx, ug, ov) == 'numpy.full' and ov.args
                  and norm_text(flow.resolve(ov.args[0])).endswith('face_count') and len(ov.args) > 1 and is_none(ov.args[1]))
        rets = ug.returns()
        ok_ret = bool(rets) and all(flow.canon(r.value) == flow.canon(out) for r in rets)
        ctx.check('R02.3', ok_out and ok_ret, "out= is a None-filled array with one slot per face, and that array is returned", ug, sc,
                  construct=f"out = {norm_text(ov)}")
        # every face is in exactly one batch: loop over unique sizes of the per-face count
        loops = [n for n in walk_no_nested(ug.node) if isinstance(n, ast.For)]
        ok_loop = False
        if len(loops) == 1:
            itv = flow.resolve(loops[0].iter)
            ok_loop = isinstance(itv, ast.Call) and callee(ctx, ug, itv) == 'numpy.unique' and isinstance(loops[0].target, ast.Name) \
                and ok_idx and flow.reaches(iv.args[0], lambda n: isinstance(n, ast.Name) and n.id == loops[0].target.id)
            if ok_idx and isinstance(flow.resolve(iv.args[0]), ast.Compare):
                cmp_ = flow.resolve(iv.args[0])
                ok_loop = ok_loop and isinstance(cmp_.ops[0], ast.Eq) and flow.canon(cmp_.left) == flow.canon(itv.args[0])
        ctx.check('R02.3', ok_loop, "faces are batched by their own vertex count (each face in exactly one batch)", ug, loops[0] if loops else ug.node)
        mh = ctx.func(f"{UTILS}.make_polygons_with_holes")
        flow = ctx.flow(mh)
        sp = [c for c in calls_in(mh) if callee(ctx, mh, c) == 'shapely.polygons']
        ctx.need('R02.3', len(sp) == 1, "make_polygons_with_holes builds polygons with shapely.polygons", mh)
        sc = sp[0]
        idx, out = kwarg(sc, 'indices'), kwarg(sc, 'out')
        a0 = flow.resolve(sc.args[0]) if sc.args else None
        ok = (idx is not None and isinstance(a0, ast.Subscript) and flow.canon(a0.value) == ('param', mh.params[0])
              and flow.canon(a0.slice) == flow.canon(idx))
        if not ok and idx is not None and isinstance(a0, ast.Subscript) and flow.canon(a0.value) == ('param', mh.params[0]):
            # points[<row test>] with indices=flatnonzero(<the same row test>): a boolean selection takes the rows at the True positions, in order
            iv0 = flow.resolve(idx)
            ok = isinstance(iv0, ast.Call) and callee(ctx, mh, iv0) == 'numpy.flatnonzero' and len(iv0.args) == 1 and not iv0.keywords \
                and flow.canon(iv0.args[0]) == flow.canon(a0.slice)
        ctx.check('R02.3', ok, "the rows turned into polygons are points[rows] with rows passed as indices=", mh, sc)
        iv = flow.resolve(idx) if idx is not None else None
        ok = False
        # numpy.nonzero(rows)[0] is flatnonzero(rows) for a one dimensional test
        if isinstance(iv, ast.Subscript) and const_value(iv.slice, None) == 0 and isinstance(flow.resolve(iv.value), ast.Call) \
                and callee(ctx, mh, flow.resolve(iv.value)) == 'numpy.nonzero':
            iv = flow.resolve(iv.value)
        if isinstance(iv, ast.Call) and callee(ctx, mh, iv) in ('numpy.flatnonzero', 'numpy.nonzero') and iv.args:
            t = flow.resolve(iv.args[0])
            ok = (isinstance(t, ast.Call) and isinstance(t.func, ast.Attribute) and t.func.attr == 'all'
                  and isinstance(flow.resolve(t.func.value), ast.Call) and callee(ctx, mh, flow.resolve(t.func.value)) == 'numpy.isfinite'
                  and flow.canon(flow.resolve(t.func.value).args[0]) == ('param', mh.params[0])
                  and norm_text(kwarg(t, 'axis') or (t.args[0] if t.args else ast.Constant(None))) == '(1, 2)')
        ctx.check('R02.3', ok, "rows = flatnonzero(all coordinates of the row are finite): incomplete cells stay None", mh, sc,
                  construct=f"rows = {norm_text(iv) if iv is not None else '?'}")
        alloc = [n for n in walk_no_nested(mh.node) if isinstance(n, ast.Assign) and isinstance(n.value, ast.Call) and callee(ctx, mh, n.value) == 'numpy.full']
        ok = (len(alloc) == 1 and norm_text(alloc[0].value.args[0]) == f"{mh.params[0]}.shape[0]" and is_none(alloc[0].value.args[1])
              and any(inb and norm_text(st.test) == 'out is None' for st, inb in enclosing_ifs(mh, alloc[0]))
              and out is not None and isinstance(out, ast.Name) and out.id == 'out'
              and all(isinstance(r.value, ast.Name) and r.value.id == 'out' for r in mh.returns()))
        ctx.check('R02.3', ok, "the output has points.shape[0] slots, is passed as out= and returned", mh, alloc[0] if alloc else mh.node)

    # ------------------------------------------------------------------ R02.4
    with ctx.section('R02.4'):
        Y, X = size_sym('y_dimension'), size_sym('x_dimension')
        fc1 = ctx.func(f"{GRID}.CFGrid1D.face_centres")
        it, src = interpret(ctx, fc1, {'topology.longitude': ('lon', [X]), 'topology.latitude': ('lat', [Y]),
                                       'self.topology.longitude': ('lon', [X]), 'self.topology.latitude': ('lat', [Y])},
                            {'self.topology.shape': [Y, X], 'topology.shape': [Y, X]})      # (CFGridTopology.shape = (y, x): checked by R02.2)
        val = it.returns[0][1] if it.returns else None
        ok = False
        detail = repr(val) if not isinstance(val, Arr) else val.show()
        if isinstance(val, Arr) and val.ndim == 2 and val.axes[0].merged and val.axes[1].size == const(2):
            order = merged_order(val.axes[0])
            if len(order) == 2 and [a.size for a in order] == [Y, X]:
                l0 = leaves(fix(val.body, val.axes[1].key, 0))
                l1 = leaves(fix(val.body, val.axes[1].key, 1))
                ok = (len(l0) == 1 and len(l1) == 1 and l0[0].src == 'lon' and l1[0].src == 'lat'
                      and offset_of(l0[0].index[0], order[1].key) == 0 and offset_of(l1[0].index[0], order[0].key) == 0)
            detail = f"shape {val.show()}, merge order {[a.show() for a in order]}"
        ctx.check('R02.4', ok, "CFGrid1D face centres: (lon[x], lat[y]) for cells merged row-major over (y, x)", fc1, it.returns[0][0] if it.returns else fc1.node,
                  construct=f"CFGrid1D.face_centres: {detail}")
        for qual, lon_txt, lat_txt in ((f"{GRID}.CFGrid2D.face_centres", 'self.topology.longitude', 'self.topology.latitude'),
                                       (f"{ARAKAWA}.ArakawaC.face_centres", 'self.face.longitude', 'self.face.latitude')):
            fi = ctx.func(qual)
            flow = ctx.flow(fi)
            cs = [c for c in calls_in(fi) if callee(ctx, fi, c) == 'numpy.column_stack']
            ok = False
            if len(cs) == 1 and cs[0].args and isinstance(cs[0].args[0], ast.Tuple) and len(cs[0].args[0].elts) == 2:
                want = [f"self.ravel({lon_txt}).values", f"self.ravel({lat_txt}).values"]
                got = [norm_text(flow.resolve(e)) for e in cs[0].args[0].elts]
                ok = got == want and all(flow.reaches(r.value, lambda n: n is cs[0]) for r in fi.returns())
            ctx.check('R02.4', ok, "face centres = column_stack((ravel(face longitude), ravel(face latitude))): ravel gives index order", fi,
                      cs[0] if cs else fi.node)
        ufc = ctx.func(f"{UGRID}.UGrid.face_centres")
        flow = ctx.flow(ufc)
        cs = [c for c in calls_in(ufc) if callee(ctx, ufc, c) == 'numpy.column_stack']
        ok = False
        if len(cs) == 1 and isinstance(cs[0].args[0], ast.Tuple) and len(cs[0].args[0].elts) == 2:
            a, b = (flow.canon(e) for e in cs[0].args[0].elts)
            ok = 'face_x' in repr(a) and 'face_y' in repr(b) and 'face_y' not in repr(a) and 'face_x' not in repr(b)
            from .common import facts as _facts02
            known = _facts02(ctx, ufc, cs[0], expand=False)
            ok = ok and any(t.endswith('face_x is None') and not pol for t, pol in known) and any(t.endswith('face_y is None') and not pol for t, pol in known)
        ctx.check('R02.4', ok, "UGRID face centres: (face_x, face_y) as stored, when both exist", ufc, cs[0] if cs else ufc.node)
        fallback = [r for r in ufc.returns() if isinstance(r.value, ast.Attribute) and norm_text(r.value) == 'super().face_centres']
        ctx.check('R02.4', len(fallback) == 1, "otherwise the generic centroid implementation is used", ufc, fallback[0] if fallback else ufc.node)
        bfc = ctx.func(f"{BASE}.face_centres")
        flow = ctx.flow(bfc)
        comps = [n for n in ast.walk(bfc.node) if isinstance(n, ast.ListComp)]
        ok = False
        from .common import expand_locals as _xl02
        if len(comps) == 1:
            g = comps[0].generators[0]
            ok = (len(comps[0].generators) == 1 and not g.ifs and flow.canon(g.iter) == ('attr', ('param', 'self'), 'polygons')
                  and isinstance(comps[0].elt, ast.IfExp) and 'centroid' in norm_text(comps[0].elt.orelse)
                  and norm_text(comps[0].elt.test) == f"{g.target.id} is None" and 'nan' in norm_text(_xl02(flow, comps[0].elt.body)))
            # (conditional expressions are normalised to their positive test: `nan if polygon is None else centroid`)
        ctx.check('R02.4', ok, "generic face centres: one entry per polygon in order, NaN for holes", bfc, comps[0] if comps else bfc.node)

    # ------------------------------------------------------------------ R02.5
    with ctx.section('R02.5'):
        st = ctx.func(f"{BASE}.strtree")
        flow = ctx.flow(st)
        for r in st.returns():
            v = flow.resolve(r.value)
            ok = (isinstance(v, ast.Call) and (dotted(v.func) or '').endswith('STRtree') and len(v.args) == 1 and not v.keywords
                  and flow.canon(v.args[0]) == ('attr', ('param', 'self'), 'polygons'))
            ctx.check('R02.5', ok, "STRtree(self.polygons): tree positions are linear indexes", st, r)
        mk = ctx.func(f"{BASE}.mask")
        from .common import polygons_mask_ok
        ok, how = polygons_mask_ok(ctx, mk)
        ctx.check('R02.5', ok, "mask[n] = polygons[n] is not None, one entry per slot in order", mk, mk.node, construct=f"Convention.mask: {how}")
        pg = ctx.func(f"{BASE}.polygons")
        flow = ctx.flow(pg)
        mkc = [c for c in method_calls(pg, '_make_polygons') if flow.canon(c.func.value) == ('param', 'self')]
        ok = len(mkc) == 1 and all(flow.resolve(r.value) is mkc[0] for r in pg.returns()) and len(pg.returns()) >= 1
        ctx.check('R02.5', ok, "the published array is the very array built by _make_polygons (no compaction, no reordering)", pg,
                  pg.returns()[0] if pg.returns() else pg.node)
        stores = [n for n in walk_no_nested(pg.node) if isinstance(n, ast.Assign) and isinstance(n.targets[0], ast.Subscript)
                  and mkc and flow.resolve(n.targets[0].value) is mkc[0]]
        ok = all(is_none(n.value) for n in stores)
        ctx.check('R02.5', ok, "the only in-place change to it is replacing entries by None", pg, stores[0] if stores else pg.node,
                  construct=f"stores into the polygon array: {[norm_text(s) for s in stores]}")



# --------------------------------------------------------------------------- checker self-test
from ..variants import V  # noqa: E402

_G = 'src/emsarray/conventions/grid.py'
_A = 'src/emsarray/conventions/arakawa_c.py'
_U = 'src/emsarray/conventions/ugrid.py'
_B = 'src/emsarray/conventions/_base.py'
_UT = 'src/emsarray/utils.py'
VARIANTS = [
    V('C02', 'cf-grid-dimensions-swapped', _G, "            CFGridKind.face: [self.topology.y_dimension, self.topology.x_dimension],", "            CFGridKind.face: [self.topology.x_dimension, self.topology.y_dimension],", 'R02.2'),
    V('C02', 'cf1d-broadcast-shape-swapped', _G, "numpy.broadcast_to(numpy.expand_dims(lon_bounds_2d, 0), (y_size, x_size, 4))", "numpy.broadcast_to(numpy.expand_dims(lon_bounds_2d, 0), (x_size, y_size, 4))", 'R02.2'),
    V('C02', 'cf1d-lat-transpose-removed', _G, "        lat_bounds_2d = numpy.transpose(lat_bounds_2d, (1, 0, 2))\n", "", 'R02.2'),
    V('C02', 'cf1d-lat-expand-last', _G, "        lat_bounds_2d = numpy.broadcast_to(numpy.expand_dims(lat_bounds_2d, 0), (x_size, y_size, 4))\n        lat_bounds_2d = numpy.transpose(lat_bounds_2d, (1, 0, 2))", "        lat_bounds_2d = numpy.broadcast_to(numpy.expand_dims(lat_bounds_2d, 0), (y_size, x_size, 4))", 'R02.2'),
    V('C02', 'cf1d-points-order-F', _G, "        points = numpy.stack([lon_bounds_2d, lat_bounds_2d], axis=-1).reshape((-1, 4, 2))\n\n        polygons", "        points = numpy.stack([lon_bounds_2d, lat_bounds_2d], axis=-1).reshape((-1, 4, 2), order='F')\n\n        polygons", 'R02.2'),
    V('C02', 'topology-shape-swapped', _G, "        return (sizes[self.y_dimension], sizes[self.x_dimension])", "        return (sizes[self.x_dimension], sizes[self.y_dimension])", 'R02.2'),
    V('C02', 'arakawa-stack-axis-0', _A, "        ], axis=2).reshape((-1, 4, 2))", "        ], axis=0).reshape((-1, 4, 2))", 'R02.2'),
    V('C02', 'arakawa-transposed-grid', _A, "        grid = numpy.stack([self.node.longitude.values, self.node.latitude.values], axis=-1)", "        grid = numpy.stack([self.node.longitude.values.T, self.node.latitude.values.T], axis=-1)", 'R02.2'),
    V('C02', 'arakawa-neighbour-cell', _A, "            grid[:-1, :-1],\n            grid[:-1, +1:],\n            grid[+1:, +1:],\n            grid[+1:, :-1],", "            grid[:-1, :-1],\n            grid[:-1, +1:],\n            grid[+1:, +1:],\n            grid[+1:, :-1],"[::1].replace("grid[+1:, :-1],", "grid[+1:, :-1] ,"), None),
    V('C02', 'ugrid-out-scatter-other-index', _U, "            shapely.polygons(coords, indices=indices, out=polygons)", "            shapely.polygons(coords, indices=numpy.arange(len(indices)), out=polygons)", 'R02.3'),
    V('C02', 'ugrid-compacted-output', _U, "        polygons = numpy.full(topology.face_count, None, dtype=numpy.object_)", "        polygons = numpy.full(int(numpy.sum(~numpy.ma.getmaskarray(topology.face_node_array).all(axis=1))), None, dtype=numpy.object_)", 'R02.3'),
    V('C02', 'holes-compacted', _UT, "        indices=complete_row_indexes,\n        out=out)", "        indices=numpy.arange(len(complete_row_indexes)),\n        out=out)", 'R02.3'),
    V('C02', 'cf1d-meshgrid-ij', _G, "        xx, yy = numpy.meshgrid(topology.longitude.values, topology.latitude.values)", "        xx, yy = numpy.meshgrid(topology.longitude.values, topology.latitude.values, indexing='ij')", 'R02.4'),
    V('C02', 'cf1d-centres-swapped', _G, "        centres = numpy.column_stack((xx.flatten(), yy.flatten()))", "        centres = numpy.column_stack((yy.flatten(), xx.flatten()))", 'R02.4'),
    V('C02', 'ugrid-centres-swapped', _U, "            face_centres = numpy.column_stack((face_x, face_y))", "            face_centres = numpy.column_stack((face_y, face_x))", 'R02.4'),
    V('C02', 'strtree-compacted', _B, "        return STRtree(self.polygons)", "        return STRtree(self.polygons[self.mask])", 'R02.5'),
    V('C02', 'polygons-compacted', _B, "        polygons.flags.writeable = False\n        return polygons", "        polygons = polygons[not_none]\n        polygons.flags.writeable = False\n        return polygons", 'R02.5'),
    V('C02', 'ravel-order-F', _UT, "    new_data = data_array.values.reshape(new_shape)\n    existing_dims", "    new_data = data_array.values.reshape(new_shape, order='F')\n    existing_dims", 'R02.1'),
    # benign
    V('C02', 'benign-arakawa-other-orientation', _A, "            grid[:-1, :-1],\n            grid[:-1, +1:],\n            grid[+1:, +1:],\n            grid[+1:, :-1],", "            grid[:-1, :-1],\n            grid[+1:, :-1],\n            grid[+1:, +1:],\n            grid[:-1, +1:],", None),
    V('C02', 'benign-moveaxis', _G, "        lat_bounds_2d = numpy.transpose(lat_bounds_2d, (1, 0, 2))", "        lat_bounds_2d = numpy.swapaxes(lat_bounds_2d, 0, 1)", None),
]
VARIANTS = [v for v in VARIANTS if v.name != 'arakawa-neighbour-cell']
