"""C07 - clip masks select exactly the intersecting cells plus the requested buffer."""
from __future__ import annotations

import ast

from ..axes import Arr, DataArrayVal, Top
from ..cfg import stmt_of
from ..linear import Lin, const, linear, symbol
from ..model import AnalysisError, const_value, dotted, kwarg, norm_text, walk_no_nested
from ..report import Context
from .common import (
    arg_or_kw, calls_in, callee, enclosing_ifs, is_none, method_calls, predicate_of, sorted_ascending, strtree_queries,
)
from .geomcommon import GRID, ARAKAWA, interpret, size_sym, topology_shape

BASE = 'emsarray.conventions._base.Convention'
UGRID = 'emsarray.conventions.ugrid'
MASKING = 'emsarray.masking'
NEGATIVE_OPS = (ast.Invert, ast.Not)


def smear_facts(ctx, sm):
    """smear_mask = OR over itertools.product(per-axis alternatives) of numpy.pad(arr, widths).

    Accepted shapes of the OR: functools.reduce(operator.or_, <generator of pads>) or an
    accumulator `acc = pad(arr, next(it)); for w in it: acc = acc | pad(arr, w)` (also `|=`).
    The per-axis alternatives are {(1, 0), (0, 1)} for a selected axis and {(0, 0)} otherwise."""
    flow = ctx.flow(sm)
    arr_p, axes_p = sm.params[0], sm.params[1]
    pads = [c for c in calls_in(sm, nested=True) if callee(ctx, sm, c) == 'numpy.pad']
    if not pads:
        return False, 'no numpy.pad call'
    products = []
    for c in pads:
        if not (c.args and flow.canon(c.args[0]) == ('param', arr_p)) or len(c.args) < 2 or len(c.args) > 2 or any(k.arg not in (None,) for k in c.keywords if k.arg != 'mode' or const_value(k.value, None) != 'constant'):
            return False, f"pad call {norm_text(c)} is not pad({arr_p}, widths) with the default zero fill"
        hits = [n for n, _ in flow.expand(c.args[1]) if isinstance(n, ast.Call) and callee(ctx, sm, n) == 'itertools.product']
        if len(hits) != 1:
            return False, f"pad widths of {norm_text(c)} do not come from one itertools.product"
        products.append(hits[0])
    if any(pr is not products[0] for pr in products):
        return False, 'pad widths come from different products'
    pr = products[0]
    if not (len(pr.args) == 1 and isinstance(pr.args[0], ast.Starred) and not pr.keywords):
        return False, 'itertools.product is not applied to the unpacked per-axis alternatives'
    alts = flow.resolve(pr.args[0].value)
    if not (isinstance(alts, (ast.ListComp, ast.GeneratorExp)) and len(alts.generators) == 1 and not alts.generators[0].ifs
            and isinstance(alts.generators[0].target, ast.Name) and flow.canon(alts.generators[0].iter) == ('param', axes_p)
            and isinstance(alts.elt, ast.IfExp)):
        return False, f"per-axis alternatives are not one choice per entry of {axes_p}"
    tv = alts.generators[0].target.id
    test, yes, no = alts.elt.test, alts.elt.body, alts.elt.orelse
    if isinstance(test, ast.UnaryOp) and isinstance(test.op, ast.Not):
        test, yes, no = test.operand, no, yes
    def as_set(e):
        if isinstance(e, (ast.List, ast.Tuple)):
            vals = [const_value(x, None) if not isinstance(x, (ast.Tuple, ast.List)) else tuple(const_value(y, None) for y in x.elts) for x in e.elts]
            return sorted(vals, key=repr), len(vals)
        return None, 0
    ys, yn = as_set(yes)
    ns, nn = as_set(no)
    if not (isinstance(test, ast.Name) and test.id == tv and ys == sorted([(1, 0), (0, 1)], key=repr) and yn == 2 and ns == [(0, 0)] and nn == 1):
        return False, f"alternatives are {norm_text(yes)} when selected, {norm_text(no)} otherwise"
    # the OR
    rets = sm.returns()
    reduces = [c for c in calls_in(sm, nested=True) if callee(ctx, sm, c) == 'functools.reduce']
    if reduces:
        r = reduces[0]
        gen = flow.resolve(r.args[1]) if len(r.args) >= 2 else None
        ok = (len(reduces) == 1 and len(r.args) == 2 and dotted(r.args[0]) is not None
              and ctx.p.canonical(sm.module.resolve(dotted(r.args[0]))) == 'operator.or_'
              and isinstance(gen, (ast.GeneratorExp, ast.ListComp)) and len(gen.generators) == 1 and not gen.generators[0].ifs
              and gen.elt in pads and len(pads) == 1
              and any(n is pr for n, _ in flow.expand(gen.generators[0].iter))
              and bool(rets) and all(flow.reaches(x.value, lambda n: n is r) for x in rets))
        return ok, 'functools.reduce(operator.or_, pads over the product)' if ok else f"reduce form not recognised: {norm_text(r)[:80]}"
    # accumulator form
    loops = [n for n in walk_no_nested(sm.node) if isinstance(n, ast.For)]
    for lp in loops:
        if lp.orelse or not any(n is pr for n, _ in flow.expand(lp.iter)):
            continue
        body = [st for st in lp.body if not (isinstance(st, ast.Expr) and isinstance(st.value, ast.Constant))]
        if len(body) != 1:
            continue
        st = body[0]
        acc = term = None
        if isinstance(st, ast.AugAssign) and isinstance(st.op, ast.BitOr) and isinstance(st.target, ast.Name):
            acc, term = st.target.id, st.value
        elif isinstance(st, ast.Assign) and len(st.targets) == 1 and isinstance(st.targets[0], ast.Name) and isinstance(st.value, ast.BinOp) \
                and isinstance(st.value.op, ast.BitOr):
            acc = st.targets[0].id
            l, r_ = st.value.left, st.value.right
            term = r_ if isinstance(l, ast.Name) and l.id == acc else (l if isinstance(r_, ast.Name) and r_.id == acc else None)
        if acc is None or term not in pads:
            continue
        if not (isinstance(term.args[1], ast.Name) and isinstance(lp.target, ast.Name) and term.args[1].id == lp.target.id):
            continue
        inits = [n for n in walk_no_nested(sm.node) if isinstance(n, ast.Assign) and len(n.targets) == 1 and isinstance(n.targets[0], ast.Name)
                 and n.targets[0].id == acc and n is not st]
        if len(inits) != 1 or inits[0].value not in pads or len(pads) != 2:
            continue
        w0 = inits[0].value.args[1]
        # the first term takes the first combination off the very iterator the loop then drains
        if not (isinstance(w0, ast.Call) and dotted(w0.func) == 'next' and len(w0.args) == 1 and isinstance(w0.args[0], ast.Name)
                and isinstance(lp.iter, ast.Name) and lp.iter.id == w0.args[0].id):
            continue
        itdef = flow.resolve(lp.iter)
        if not (isinstance(itdef, ast.Call) and dotted(itdef.func) == 'iter' or itdef is pr):
            continue
        if rets and all(isinstance(x.value, ast.Name) and x.value.id == acc or flow.reaches(x.value, lambda n: isinstance(n, ast.Name) and n.id == acc) for x in rets):
            return True, f"accumulator {acc} |= pad over the product, seeded with the first combination"
    return False, 'the padded copies are not combined by a recognised OR over every combination'


def run(ctx: Context) -> None:
    p = ctx.p
    base = p.cls(BASE)
    ctx.rule('R07.1', "every make_clip_mask queries self.strtree with predicate 'intersects' on the clip geometry itself", floor=6)
    ctx.rule('R07.2', "grid masks: the hits are written through a flat view of a freshly allocated (first grid dimension, second grid dimension) array, and the mask variable is declared on those dimensions in that order; the buffer dilation is applied exactly when buffer > 0 with size=buffer", floor=8)
    ctx.rule('R07.3', "blur_mask dilates with a centred symmetric window: pad width p = size, window [i, i + 2*size + 1) on the padded array per axis, one output per input cell in iteration (C) order, reshaped to the input shape", floor=5)
    ctx.rule('R07.4', "edge / node masks: left is the face mask smeared along the second axis, back along the first, node along both; smear_mask ORs the two one-cell shifts on each selected axis", floor=5)
    ctx.rule('R07.5', "monotone construction: nothing derived from the hit set is negated, xor-ed, subtracted or compared for inequality on its way into the mask", floor=6)
    ctx.rule('R07.6', "meshes: one node-sharing ring per buffer step keeping the originals; kept edges / nodes are those of the kept faces' rows; every old-to-new table is numbered arange over a sorted, duplicate free index array", floor=10)
    from .common import adopt_foundations as _adopt
    _adopt(ctx, 'R07.7', ['geometry', 'topology', 'order'], floor=100)
    ctx.rule('R07.8', "the one-step clip is make_clip_mask followed by apply_clip_mask: the geometry, the buffer and the work directory arrive there as given", floor=3)
    with ctx.section('R07.8'):
        from . import infra as _infra8
        _infra8.passes_parameters_on(ctx, 'R07.8', 'emsarray.conventions._base.Convention.clip', "clip stands for make_clip_mask and apply_clip_mask")
    ctx.assume("STRtree 'intersects' hit sets are monotone in the query geometry; numpy.nditer(..., order='C') and numpy.ndindex visit positions in C order (the nditer default 'K' follows the memory layout instead)")
    ctx.assume("NOT decided by execution: agreement of blur_mask / smear_mask with their definition on all small arrays; R07.3/R07.4 are the symbolic counterpart for all sizes")

    # ------------------------------------------------------------------ R07.1
    with ctx.section('R07.1'):
        impls = p.implementations(base, 'make_clip_mask')
        ctx.require(len(impls) >= 3, f"expected >= 3 make_clip_mask implementations, found {len(impls)}")
        queries = {}
        for fi in impls:
            flow = ctx.flow(fi)
            qs = strtree_queries(ctx, fi)
            ctx.need('R07.1', len(qs) == 1, f"{fi.short} queries the spatial index once", fi)
            q = qs[0]
            queries[fi.qualname] = q
            ctx.check('R07.1', predicate_of(q) == 'intersects', "predicate is the literal 'intersects' (touching counts)", fi, q,
                      construct=f"{fi.short}: predicate={predicate_of(q)!r}")
            geom = q.args[0] if q.args else kwarg(q, 'geometry')
            ok = geom is not None and flow.canon(geom) == ('param', fi.params[1]) and flow.canon(q.func.value) == ('attr', ('param', 'self'), 'strtree')
            ctx.check('R07.1', ok, "the geometry queried is the clip geometry argument, on this convention's own index", fi, q,
                      construct=f"{fi.short}: query({norm_text(geom) if geom is not None else '?'})")

    # ------------------------------------------------------------------ R07.2 grid conventions
    with ctx.section('R07.2 grid conventions'):
        shape_fi, cf_shape = topology_shape(ctx, f"{GRID}.CFGridTopology")
        ak_fi, ak_shape = topology_shape(ctx, f"{ARAKAWA}.ArakawaCGridTopology")
        for qual, shape_txt, shape_syms, dims_handles in (
                (f"{GRID}.CFGrid.make_clip_mask", 'self.topology.shape', cf_shape, ['y_dimension', 'x_dimension']),
                (f"{ARAKAWA}.ArakawaC.make_clip_mask", 'self.face.shape', ak_shape, ['j_dimension', 'i_dimension'])):
            fi = ctx.func(qual)
            flow = ctx.flow(fi)
            q = queries[fi.qualname]
            allocs = [n for n in walk_no_nested(fi.node) if isinstance(n, ast.Assign) and isinstance(n.value, ast.Call)
                      and callee(ctx, fi, n.value) in ('numpy.full', 'numpy.zeros')]
            # the same mask without an allocation: "is linear index n among the hits", for n in 0 .. size-1, in the grid's shape (C order)
            isin_form = None
            if not allocs:
                for n in walk_no_nested(fi.node):
                    if isinstance(n, ast.Assign) and isinstance(n.value, ast.Call) and isinstance(n.value.func, ast.Attribute) and n.value.func.attr == 'reshape' \
                            and isinstance(n.value.func.value, ast.Call) and callee(ctx, fi, n.value.func.value) == 'numpy.isin':
                        isin_form = n
            if isin_form is not None:
                mname = norm_text(isin_form.targets[0])
                test_ = isin_form.value.func.value
                positions = flow.resolve(test_.args[0]) if len(test_.args) == 2 and not test_.keywords else None
                owner = shape_txt.rsplit('.', 1)[0]
                ok_alloc = (isinstance(positions, ast.Call) and callee(ctx, fi, positions) == 'numpy.arange' and len(positions.args) == 1 and not positions.keywords
                            and norm_text(flow.resolve(positions.args[0])) == f"{owner}.size" and len(isin_form.value.args) == 1 and not isin_form.value.keywords
                            and norm_text(flow.resolve(isin_form.value.args[0])) == shape_txt)
                ctx.check('R07.2', ok_alloc, "the mask is a fresh C-ordered all-False array of the face grid's shape", fi, isin_form, construct=f"{fi.short}: {norm_text(isin_form)[:120]}")
                ok_shape = shape_syms is not None and [s_.show() for s_ in shape_syms] == [size_sym(h).show() for h in dims_handles]
                ctx.check('R07.2', ok_shape, "that shape is (size of the first grid dimension, size of the second)", shape_fi if 'CFGrid' in qual else ak_fi,
                          (shape_fi if 'CFGrid' in qual else ak_fi).node, construct=f"{shape_txt} = {[s_.show() for s_ in shape_syms] if shape_syms else '?'}")
                flat_ok = ok_alloc and flow.resolve(test_.args[1]) is q
                ctx.check('R07.2', flat_ok, "exactly the hit positions are set True through mask.ravel() (a view of the fresh array: linear index order)", fi, isin_form,
                          construct=f"{fi.short}: position n is True iff n is among the hits, positions 0 .. size-1 reshaped in C order")
            else:
                ctx.need('R07.2', len(allocs) == 1, f"{fi.short} allocates one mask array", fi)
            al = allocs[0] if allocs else None
            mname = norm_text(al.targets[0]) if al is not None else mname
            if al is not None:
                fillv = kwarg(al.value, 'fill_value') or (al.value.args[1] if len(al.value.args) > 1 else None)
                ok_alloc = (norm_text(flow.resolve(al.value.args[0])).endswith(shape_txt.split('.', 1)[-1]) or norm_text(al.value.args[0]) == shape_txt) \
                    and (callee(ctx, fi, al.value) == 'numpy.zeros' or const_value(fillv, None) is False) and kwarg(al.value, 'order') is None
                ctx.check('R07.2', ok_alloc, "the mask is a fresh C-ordered all-False array of the face grid's shape", fi, al, construct=f"{fi.short}: {norm_text(al)}")
                ok_shape = shape_syms is not None and [s.show() for s in shape_syms] == [size_sym(h).show() for h in dims_handles]
                ctx.check('R07.2', ok_shape, "that shape is (size of the first grid dimension, size of the second)", shape_fi if 'CFGrid' in qual else ak_fi,
                          (shape_fi if 'CFGrid' in qual else ak_fi).node, construct=f"{shape_txt} = {[s.show() for s in shape_syms] if shape_syms else '?'}")
                writes = [n for n in walk_no_nested(fi.node) if isinstance(n, ast.Assign) and isinstance(n.targets[0], ast.Subscript)
                          and isinstance(n.targets[0].value, ast.Call) and isinstance(n.targets[0].value.func, ast.Attribute)
                          and n.targets[0].value.func.attr in ('ravel', 'reshape') and norm_text(n.targets[0].value.func.value) == mname]
                flat_ok = False
                if len(writes) == 1:
                    w = writes[0]
                    view = w.targets[0].value
                    is_view = view.func.attr == 'ravel' and not view.args and not view.keywords
                    idx_ok = flow.resolve(w.targets[0].slice) is q
                    val_ok = const_value(w.value, None) is True
                    between = [n for n in walk_no_nested(fi.node) if isinstance(n, ast.Assign) and norm_text(n.targets[0]) == mname and al.lineno < n.lineno < w.lineno]
                    flat_ok = is_view and idx_ok and val_ok and not between
                elif not writes:
                    # the same positions through their (row, column) form: mask[numpy.unravel_index(hits, <the shape the mask was made with>)] = True (C order)
                    for n in walk_no_nested(fi.node):
                        if isinstance(n, ast.Assign) and isinstance(n.targets[0], ast.Subscript) and norm_text(n.targets[0].value) == mname \
                                and isinstance(n.targets[0].slice, ast.Call) and callee(ctx, fi, n.targets[0].slice) == 'numpy.unravel_index':
                            u = n.targets[0].slice
                            shp = arg_or_kw(u, 1, 'shape')
                            between = [x for x in walk_no_nested(fi.node) if isinstance(x, ast.Assign) and norm_text(x.targets[0]) == mname and al.lineno < x.lineno < n.lineno]
                            flat_ok = (bool(u.args) and flow.resolve(u.args[0]) is q and shp is not None and kwarg(u, 'order') is None and len(u.args) <= 2
                                       and norm_text(flow.resolve(shp)) == norm_text(flow.resolve(al.value.args[0])) and const_value(n.value, None) is True and not between)
                            writes = [n]
                ctx.check('R07.2', flat_ok, "exactly the hit positions are set True through mask.ravel() (a view of the fresh array: linear index order)", fi,
                          writes[0] if writes else fi.node, construct=f"{fi.short}: {norm_text(writes[0]) if writes else 'flat write not found'}")
            blurs = [c for c in calls_in(fi) if callee(ctx, fi, c) == f"{MASKING}.blur_mask"]
            ok_blur = False
            if len(blurs) == 1:
                b = blurs[0]
                g = [(norm_text(st.test), inb) for st, inb in enclosing_ifs(fi, b)]
                st = stmt_of(fi, b)
                ok_blur = (('buffer > 0', True) in g and len(g) == 1 and norm_text(b.args[0]) == mname
                           and norm_text(kwarg(b, 'size') or (b.args[1] if len(b.args) > 1 else ast.Constant(None))) == 'buffer'
                           and isinstance(st, ast.Assign) and norm_text(st.targets[0]) == mname)
            ctx.check('R07.2', ok_blur, "the mask is dilated with size=buffer exactly when buffer > 0", fi, blurs[0] if blurs else fi.node,
                      construct=f"{fi.short}: " + (norm_text(stmt_of(fi, blurs[0])) if blurs else 'no blur_mask call'))
            if 'CFGrid' in qual:
                das = [c for c in calls_in(fi) if (callee(ctx, fi, c) or '').endswith('xarray.DataArray')]
                ok = False
                if len(das) == 1:
                    d = kwarg(das[0], 'dims')
                    dl = flow.resolve(d) if d is not None else None
                    ok = (norm_text(kwarg(das[0], 'data') or das[0].args[0]) == mname and isinstance(dl, (ast.List, ast.Tuple))
                          and [norm_text(e) for e in dl.elts] == [f"self.topology.{h}" for h in dims_handles])
                ctx.check('R07.2', ok, "the mask variable is declared on [y_dimension, x_dimension], matching the array's axes", fi, das[0] if das else fi.node)
            else:
                cm = [c for c in calls_in(fi) if callee(ctx, fi, c) == f"{ARAKAWA}.c_mask_from_centres"]
                _a0 = arg_or_kw(cm[0], 0, 'face_mask') if cm else None
                _a1 = arg_or_kw(cm[0], 1, 'dimensions') if cm else None
                ok = len(cm) == 1 and _a0 is not None and _a1 is not None and norm_text(_a0) == mname and 'self.grid_dimensions' in norm_text(flow.resolve(_a1))
                ctx.check('R07.2', ok, "the face mask and the convention's own grid_dimensions go to c_mask_from_centres", fi, cm[0] if cm else fi.node)

    # ------------------------------------------------------------------ R07.3 blur_mask
    with ctx.section('R07.3 blur_mask'):
        bm = ctx.func(f"{MASKING}.blur_mask")
        bflow = ctx.flow(bm)
        arr_p, size_p = bm.params[0], bm.params[1]
        # the reach of the blur is the caller's: the size is not adjusted on the way (a clamp to the shortest axis shortens the reach along the long one)
        resized = [n for n in ast.walk(bm.node) if isinstance(n, ast.Name) and n.id == size_p and isinstance(n.ctx, (ast.Store, ast.Del))]
        fine = all(isinstance(st, ast.Assign) and isinstance(st.value, ast.Call) and dotted(st.value.func) in ('int', 'operator.index') and len(st.value.args) == 1
                   and norm_text(st.value.args[0]) == size_p
                   for st in walk_no_nested(bm.node) if isinstance(st, (ast.Assign, ast.AugAssign, ast.AnnAssign))
                   and any(isinstance(t, ast.Name) and t.id == size_p for t in ast.walk(getattr(st, 'targets', [getattr(st, 'target', None)])[0])))
        ctx.check('R07.3', not resized or fine, "the window reaches `size` cells on every axis, as asked: the size argument is used as given", bm, resized[0] if resized else bm.node,
                  construct=f"assignments to `{size_p}`: {len(resized)}")
        pads = [c for c in calls_in(bm, nested=True) if callee(ctx, bm, c) == 'numpy.pad']
        ctx.need('R07.3', len(pads) == 1, "blur_mask pads the input once", bm)
        pd = pads[0]
        width = linear(bflow, pd.args[1] if len(pd.args) > 1 else kwarg(pd, 'pad_width'), {size_p: symbol('size')})
        cv = kwarg(pd, 'constant_values')
        ok = (norm_text(pd.args[0]) == arr_p and width == symbol('size') and cv is not None and const_value(cv, None) is False)
        ctx.check('R07.3', ok, "the input is padded by `size` cells of False on every side", bm, pd, construct=f"pad width {width.show() if width is not None else '?'}, constant {norm_text(cv) if cv is not None else 'default'}")
        slices = [c for c in calls_in(bm, nested=True) if dotted(c.func) == 'slice']
        ok_win = False
        detail = 'window slice not found'
        if len(slices) == 1 and len(slices[0].args) == 2:
            lo = linear(bflow, slices[0].args[0], {size_p: symbol('size'), 'i': symbol('i')})
            hi = linear(bflow, slices[0].args[1], {size_p: symbol('size'), 'i': symbol('i')})
            if lo is not None and hi is not None and width is not None:
                # original cell i sits at i + p in the padded array; window must be [i + p - size, i + p + size]
                centred = (lo - symbol('i')) == (width - symbol('size'))
                length = (hi - lo) == symbol('size').scale(2) + const(1)
                ok_win = centred and length
                detail = f"window [{lo.show()}, {hi.show()}) with pad {width.show()}"
        ctx.check('R07.3', ok_win, "the window covers [i - size, i + size] of the original on every axis", bm, slices[0] if slices else bm.node,
                  construct=f"blur window: {detail}")
        # the slices are built per axis of the cell's own multi index, applied to the padded array, reduced with any().
        # The per-cell generator may draw its index from a second generator over the iterator (today's form) or read the
        # iterator's multi_index directly: both are brought to the fused form before they are judged.
        def fused(gen):
            """(element, name the cell's index goes by, what that name stands for, iterable, filters) of a one-clause generator,
            with an intermediate index generator looked through"""
            if not isinstance(gen, ast.GeneratorExp) or len(gen.generators) != 1:
                return None
            g = gen.generators[0]
            src = bflow.resolve(g.iter)
            if isinstance(src, ast.GeneratorExp) and len(src.generators) == 1 and isinstance(g.target, ast.Name) and not g.ifs:
                return gen.elt, g.target.id, norm_text(src.elt), src.generators[0].iter, list(src.generators[0].ifs)
            return gen.elt, None, None, g.iter, list(g.ifs)

        fr = [c for c in calls_in(bm) if callee(ctx, bm, c) == 'numpy.fromiter']
        cellgen = fused(bflow.resolve(fr[0].args[0])) if len(fr) == 1 and fr[0].args else None
        it = [n for n in walk_no_nested(bm.node) if isinstance(n, ast.Assign) and isinstance(n.value, ast.Call) and callee(ctx, bm, n.value) == 'numpy.nditer']
        itname = norm_text(it[0].targets[0]) if len(it) == 1 else None
        ok = False
        if cellgen is not None and itname is not None:
            elt, alias, meaning, iterable, ifs = cellgen
            cell = f"{itname}.multi_index"
            if alias is not None and meaning == cell:
                cell = alias
            if isinstance(elt, ast.BoolOp) and isinstance(elt.op, ast.Or) and len(elt.values) == 2:
                left, right = elt.values
                if isinstance(right, ast.Call) and callee(ctx, bm, right) == 'numpy.any' and len(right.args) == 1 and isinstance(right.args[0], ast.Subscript):
                    window = right.args[0]
                    sl = window.slice
                    per_axis = (isinstance(sl, ast.Call) and dotted(sl.func) == 'tuple' and len(sl.args) == 1 and isinstance(sl.args[0], ast.GeneratorExp)
                                and len(sl.args[0].generators) == 1 and not sl.args[0].generators[0].ifs
                                and norm_text(sl.args[0].generators[0].iter) == cell and norm_text(sl.args[0].generators[0].target) == 'i'
                                and isinstance(sl.args[0].elt, ast.Call) and dotted(sl.args[0].elt.func) == 'slice')
                    ok = (norm_text(left) == f"{arr_p}[{cell}]" and bflow.resolve(window.value) is pd and per_axis
                          and norm_text(iterable) == itname and not ifs)
        ctx.check('R07.3', ok, "a cell is marked iff it was marked or any cell of its window is (window built from the cell's own index on every axis)", bm, bm.node,
                  construct='values = (arr[index] or numpy.any(padded[window(index)]) for index in indexes)')
        itv = it[0].value if len(it) == 1 else None
        order = kwarg(itv, 'order') if isinstance(itv, ast.Call) else None
        # nditer follows the memory layout unless told otherwise: the visit order must be pinned to C, the order of the final reshape;
        # and the iterator is consumed by the per-cell generator alone (a second consumer would skip cells)
        uses = [n for n in ast.walk(bm.node) if isinstance(n, ast.Name) and n.id == itname and isinstance(n.ctx, ast.Load)] if itname else []
        iterated = [n for n in ast.walk(bm.node) if isinstance(n, ast.comprehension) and norm_text(n.iter) == itname] if itname else []
        iterated += [n for n in ast.walk(bm.node) if isinstance(n, ast.For) and norm_text(n.iter) == itname] if itname else []
        other = [u for u in uses if not any(u is c.iter for c in iterated)
                 and not any(isinstance(a, ast.Attribute) and a.value is u and a.attr == 'multi_index' for a in ast.walk(bm.node))]
        ok = (isinstance(itv, ast.Call) and len(itv.args) >= 2 and len(iterated) == 1 and not other
              and norm_text(itv.args[0]) == arr_p and norm_text(itv.args[1]) == "['multi_index']"
              and order is not None and const_value(order, None) == 'C')
        ctx.check('R07.3', ok, "cells are visited once each in the array's C iteration order", bm, it[0] if it else bm.node)
        ok = False
        if len(fr) == 1:
            outer = None
            for c in calls_in(bm):
                if isinstance(c.func, ast.Attribute) and c.func.attr == 'reshape' and bflow.resolve(c.func.value) is fr[0]:
                    outer = c
            ok = (outer is not None and len(outer.args) == 1 and norm_text(outer.args[0]) == f"{arr_p}.shape" and kwarg(outer, 'order') is None
                  and norm_text(kwarg(fr[0], 'count') or ast.Constant(None)) == f"{arr_p}.size" and cellgen is not None)
        ctx.check('R07.3', ok, "the per-cell results are reshaped to the input shape in that same order", bm, fr[0] if fr else bm.node)
        rets = bm.returns()
        ok = bool(rets) and bool(fr) and all(bflow.reaches(r.value, lambda n: n is fr[0]) for r in rets)
        ctx.check('R07.3', ok, "every exit of blur_mask returns that per-cell result (no short cut for special sizes or shapes)", bm,
                  next((r for r in rets if not (fr and bflow.reaches(r.value, lambda n: n is fr[0]))), bm.node),
                  construct=f"blur_mask returns: {[norm_text(r.value)[:50] for r in rets]}")
        from .common import purity_obligations
        purity_obligations(ctx, 'R07.5', bm, [arr_p], "blur_mask")

    # ------------------------------------------------------------------ R07.4
    with ctx.section('R07.4'):
        from .common import arakawa_mask_table
        table = arakawa_mask_table(ctx)
        cm = table['_fi']
        ctx.need('R07.4', table['_call'] is not None, "c_mask_from_centres returns one xarray.Dataset of masks", cm)
        want = {'face_mask': 'centres', 'left_mask': [False, True], 'back_mask': [True, False], 'node_mask': [True, True]}
        for name, w in want.items():
            got = table.get(name, (None, None))[0]
            what = 'the centre mask itself' if w == 'centres' else 'the smear of the centre mask along ' + ['', 'the second axis', 'the first axis', 'both axes'][(2 if w[0] else 0) + (1 if w[1] else 0)]
            ctx.check('R07.4', got == w, f"{name} = {what}", cm, table['_call'], construct=f"{name}: {got}")
        sm = ctx.func(f"{MASKING}.smear_mask")
        ok, why = smear_facts(ctx, sm)
        ctx.check('R07.4', ok, "smear_mask ORs every combination of a one-cell shift before / after on the selected axes (array grows by one there)", sm, sm.node,
                  construct=f"smear_mask: {why}")

    # ------------------------------------------------------------------ R07.5 polarity
    with ctx.section('R07.5 polarity'):
        scope = [fi for fi in impls] + [bm, sm, cm, ctx.func(f"{UGRID}.buffer_faces")]
        for fi in scope:
            bad = []
            for n in ast.walk(fi.node):
                if isinstance(n, ast.UnaryOp) and isinstance(n.op, NEGATIVE_OPS):
                    # `~getmaskarray(<mesh table>)` (the entries of a table that are present) does not come from the hit set: polarity untouched
                    op_ = n.operand
                    if isinstance(op_, ast.Call) and (callee(ctx, fi, op_) or '') in ('numpy.ma.getmaskarray', 'numpy.ma.getmask') and len(op_.args) == 1 \
                            and isinstance(ctx.flow(fi).resolve(op_.args[0]), ast.Attribute) and ctx.flow(fi).resolve(op_.args[0]).attr.endswith('_array'):
                        continue
                    bad.append(n)
                elif isinstance(n, ast.BinOp) and isinstance(n.op, (ast.BitXor,)):
                    bad.append(n)
                elif isinstance(n, ast.Compare) and any(isinstance(o, (ast.NotEq, ast.NotIn)) for o in n.ops):
                    bad.append(n)
                elif isinstance(n, ast.Call) and isinstance(n.func, ast.Attribute) and n.func.attr in ('difference', 'symmetric_difference', 'difference_update', 'discard', 'remove'):
                    bad.append(n)
                elif isinstance(n, ast.Call) and (callee(ctx, fi, n) or '') in ('numpy.logical_not', 'numpy.logical_xor', 'numpy.setdiff1d', 'numpy.delete', 'numpy.invert'):
                    bad.append(n)
                elif isinstance(n, ast.Assign) and isinstance(n.targets[0], ast.Subscript) and const_value(n.value, None) is False:
                    bad.append(n)
            ctx.check('R07.5', not bad, "no negation / xor / difference / inequality on the way from the hit set to the mask", fi, bad[0] if bad else fi.node,
                      construct=f"{fi.short}: negative-polarity operators: {[norm_text(b)[:50] for b in bad] or 'none'}")

    # ------------------------------------------------------------------ R07.6 meshes
    with ctx.section('R07.6 meshes'):
        um = ctx.func(f"{UGRID}.UGrid.make_clip_mask")
        flow = ctx.flow(um)
        from ..pattern import Matcher
        m = Matcher(ctx, um)
        buf = um.params[2] if len(um.params) > 2 else 'buffer'
        loops = [n for n in walk_no_nested(um.node) if isinstance(n, ast.For)]
        lp = m.stmt(f"for $step in range({buf}):\n    $faces = buffer_faces($faces, self.topology)")
        ok = lp is not None and len(loops) == 1
        ctx.check('R07.6', ok, "buffer_faces is applied exactly `buffer` times, each time to the previous result", um, loops[0] if loops else um.node)
        rets = um.returns()
        faces = m.name('faces') or 'face_indexes'
        ok = bool(rets) and all(m.match('return mask_from_face_indexes($faces, self.topology)', r, commit=False) for r in rets)
        fidef = [n for n in walk_no_nested(um.node) if isinstance(n, ast.Assign) and norm_text(n.targets[0]) == faces and n.value is queries[um.qualname]]
        ctx.check('R07.6', ok and len(fidef) == 1, "the mask is built from the (buffered) hit faces", um, rets[0] if rets else um.node)
        bf = ctx.func(f"{UGRID}.buffer_faces")
        bflow2 = ctx.flow(bf)
        fip, tpp = bf.params[0], bf.params[1]
        bm_ = Matcher(ctx, bf)
        ok = bm_.has(f"$orig = set({fip}.tolist())", f"$fn = {tpp}.face_node_array", f"$nodes = set(numpy.unique($fn[{fip}].compressed()))")
        gens = [n for n in ast.walk(bf.node) if isinstance(n, (ast.GeneratorExp, ast.ListComp))]
        gen = None
        if ok:
            # (a generator or a list of the same faces; in a filter `bool(x)` and `x` ask the same)
            for form in ("($f for $f, $row in enumerate($fn) if $f in $orig or bool($nodes.intersection($row.compressed())))",
                         "($f for $f, $row in enumerate($fn) if $f in $orig or $nodes.intersection($row.compressed()))",
                         "[$f for $f, $row in enumerate($fn) if $f in $orig or bool($nodes.intersection($row.compressed()))]",
                         "[$f for $f, $row in enumerate($fn) if $f in $orig or $nodes.intersection($row.compressed())]"):
                gen = gen or bm_.expr(form)
        fr_ = [c for c in calls_in(bf) if callee(ctx, bf, c) == 'numpy.fromiter']
        ok2 = gen is not None and len(gens) == 1 and len(fr_) == 1 and bflow2.resolve(fr_[0].args[0]) is gen \
            and bool(bf.returns()) and all(bflow2.reaches(r.value, lambda n: n is fr_[0]) for r in bf.returns())
        if not (ok and ok2):
            # the same ring computed on whole arrays: faces whose row holds (unmasked) one of the nodes of the hit faces, or that are hit faces themselves
            R = bflow2.resolve

            def is_call(e, name, nargs=None):
                return isinstance(e, ast.Call) and (callee(ctx, bf, e) or '') == name and (nargs is None or len(e.args) == nargs)

            def is_table(e):
                return norm_text(R(e)) == f"{tpp}.face_node_array"

            def is_hit_nodes(e):
                e = R(e)
                if is_call(e, 'numpy.unique', 1):
                    inner = R(e.args[0])
                    return (isinstance(inner, ast.Call) and isinstance(inner.func, ast.Attribute) and inner.func.attr == 'compressed' and not inner.args
                            and isinstance(R(inner.func.value), ast.Subscript) and is_table(R(inner.func.value).value) and norm_text(R(inner.func.value).slice) == fip)
                return False

            def is_present_hit(e):
                """isin(getdata(table), nodes) & ~getmaskarray(table), in either order"""
                e = R(e)
                if not (isinstance(e, ast.BinOp) and isinstance(e.op, ast.BitAnd)):
                    return False
                parts = [R(e.left), R(e.right)]
                has = [x for x in parts if is_call(x, 'numpy.isin', 2) and is_call(R(x.args[0]), 'numpy.ma.getdata', 1) and is_table(R(x.args[0]).args[0]) and is_hit_nodes(x.args[1])]
                present = [x for x in parts if isinstance(x, ast.UnaryOp) and isinstance(x.op, ast.Invert) and is_call(R(x.operand), 'numpy.ma.getmaskarray', 1) and is_table(R(x.operand).args[0])]
                return len(has) == 1 and len(present) == 1

            def is_shares(e):
                e = R(e)
                return is_call(e, 'numpy.any', 1) and const_value(kwarg(e, 'axis'), None) == 1 and is_present_hit(e.args[0])

            def is_original(e):
                e = R(e)
                if not is_call(e, 'numpy.isin', 2) or norm_text(R(e.args[1])) != fip:
                    return False
                rng = R(e.args[0])
                if not is_call(rng, 'numpy.arange', 1):
                    return False
                n_ = R(rng.args[0])
                return (isinstance(n_, ast.Call) and dotted(n_.func) == 'len' and is_table(n_.args[0])) or \
                    (isinstance(n_, ast.Subscript) and const_value(n_.slice, None) == 0 and isinstance(n_.value, ast.Attribute) and n_.value.attr == 'shape' and is_table(n_.value.value))
            picks = [c for c in calls_in(bf) if is_call(c, 'numpy.flatnonzero', 1)]
            ok_v = False
            if len(picks) == 1:
                u_ = R(picks[0].args[0])
                ok_v = isinstance(u_, ast.BinOp) and isinstance(u_.op, ast.BitOr) and \
                    ((is_original(u_.left) and is_shares(u_.right)) or (is_original(u_.right) and is_shares(u_.left)))
            ok = ok2 = bool(ok_v) and bool(bf.returns()) and all(bflow2.reaches(r.value, lambda n: n is picks[0]) for r in bf.returns())
        ctx.check('R07.6', ok and ok2, "one ring: the original faces plus every face sharing a node with them, in ascending face order", bf, gens[0] if gens else bf.node)
        mf = ctx.func(f"{UGRID}.mask_from_face_indexes")
        mflow = ctx.flow(mf)
        # the old-to-new tables: through a helper `h(size, indexes)` (nested or module level), or written out (a helper that the
        # normaliser inlined): a fully masked table of `size` entries in which `table[indexes] = arange(len(indexes))`
        sites = []          # (size expression, index expression, node standing for the table, site for reports)
        helper = p.functions.get(f"{mf.qualname}.<locals>.new_element_indexes")
        hname = 'new_element_indexes'
        if helper is None:
            # the nested helper under whatever name it has: the one nested function that numbers with arange(len(...))
            nested_ = [f for f in p.functions.values() if f.parent is mf and 'numpy.arange(len(' in ast.unparse(f.node)]
            if len(nested_) == 1:
                helper, hname = nested_[0], nested_[0].name
        if helper is None:
            for n in calls_in(mf, nested=False):
                if isinstance(n.func, ast.Name) and len(n.args) >= 2 and p.functions.get(f"{mf.module.name}.{n.func.id}") is not None \
                        and 'numpy.arange(len(' in ast.unparse(p.functions[f"{mf.module.name}.{n.func.id}"].node):
                    helper, hname = p.functions[f"{mf.module.name}.{n.func.id}"], n.func.id
        if helper is not None:
            htxt = [norm_text(s) for s in helper.body]
            hp = helper.params
            ok = (len(hp) >= 2 and any(t.replace(' ', '') == f"new_indexes[{hp[1]}]=numpy.arange(len({hp[1]}))".replace(' ', '') or ('numpy.arange(len(' + hp[1] + '))') in t for t in htxt)
                  and any('numpy.ma.masked_array(' in t and 'mask=True' in t for t in htxt)
                  and any('numpy.full((' + hp[0] + ',)' in t for t in htxt) and htxt[-1].startswith('return '))
            ctx.check('R07.6', ok, "the numbering helper: a fully masked table of the element count in which the kept positions get 0..n-1 in the order given", helper, helper.node)
            for c in calls_in(mf, nested=False):
                if isinstance(c.func, ast.Name) and c.func.id == hname and len(c.args) >= 2:
                    sites.append((c.args[0], c.args[1], c, c))
        else:
            mm_ = Matcher(ctx, mf)
            for st_ in mm_.stmts('$t[$$idx] = numpy.arange(len($$idx2))'):
                tgt = st_.targets[0]
                tname = tgt.value.id if isinstance(tgt.value, ast.Name) else None
                idx = tgt.slice
                same_idx = norm_text(idx) == norm_text(st_.value.args[0].args[0])
                defs_ = [n for n in walk_no_nested(mf.node) if isinstance(n, (ast.Assign, ast.AnnAssign)) and isinstance(getattr(n, 'targets', [getattr(n, 'target', None)])[0], ast.Name)
                         and getattr(n, 'targets', [getattr(n, 'target', None)])[0].id == tname and n.lineno < st_.lineno and n.value is not None]
                # the table: masked_array(<numpy.full((size,), ...)>, mask=True), the filled array written in place, under its own name or the table's
                made = [n for n in defs_ if isinstance(n.value, ast.Call) and callee(ctx, mf, n.value) == 'numpy.ma.masked_array'
                        and norm_text(kwarg(n.value, 'mask') or ast.Constant(None)) == 'True' and n.value.args]
                size = None
                ok = False
                if tname is not None and same_idx and len(made) == 1 and made[0] is defs_[-1]:
                    src_ = made[0].value.args[0]
                    filled = src_ if isinstance(src_, ast.Call) else None
                    if isinstance(src_, ast.Name):
                        cands_ = [n for n in walk_no_nested(mf.node) if isinstance(n, ast.Assign) and norm_text(n.targets[0]) == src_.id and n.lineno < made[0].lineno
                                  and isinstance(n.value, ast.Call) and callee(ctx, mf, n.value) == 'numpy.full']
                        filled = cands_[-1].value if cands_ else None
                    if isinstance(filled, ast.Call) and callee(ctx, mf, filled) == 'numpy.full' and filled.args:
                        shape = mflow.resolve(filled.args[0])
                        size = shape.elts[0] if isinstance(shape, ast.Tuple) and len(shape.elts) == 1 else None
                        ok = size is not None
                ctx.check('R07.6', ok, "a numbering table is a fully masked table of the element count in which the kept positions get 0..n-1 in the order given", mf, st_,
                          construct=f"{norm_text(st_)[:100]}")
                if ok:
                    sites.append((size, idx, ast.Name(id=tname, ctx=ast.Load()), st_))
        ctx.need('R07.6', bool(sites), "mask_from_face_indexes numbers the kept elements (through one helper, or written out)", mf)
        hcalls = sites
        want_src = {'face': None, 'edge': 'topology.face_edge_array', 'node': 'topology.face_node_array'}
        seen = {}
        for size_e, idx, table_node, c in hcalls:
            size = norm_text(size_e)
            kind = size.replace('topology.', '').replace('_count', '')
            seen[kind] = table_node
            seen_site = getattr(seen, '_sites', None)
            inner = sorted_ascending(ctx, mf, idx)
            ok = inner is not None and size == f"topology.{kind}_count"
            # sort(unique(x)) - peel both, remembering whether duplicates were removed on the way
            core = inner
            chain = [mflow.resolve(idx)]
            while core is not None and sorted_ascending(ctx, mf, core) is not None:
                chain.append(mflow.resolve(core))
                core = sorted_ascending(ctx, mf, core)
            dedup = any(isinstance(x, ast.Call) and ((callee(ctx, mf, x) or '') == 'numpy.unique' or (isinstance(x.func, ast.Name) and x.func.id in ('set', 'frozenset'))) for x in chain) \
                or any(isinstance(x, ast.Call) and isinstance(x.func, ast.Name) and x.func.id == 'sorted' and x.args and isinstance(mflow.resolve(x.args[0]), ast.Call)
                       and isinstance(mflow.resolve(x.args[0]).func, ast.Name) and mflow.resolve(x.args[0]).func.id in ('set', 'frozenset') for x in chain)
            ctx.check('R07.6', dedup, f"the {kind} indexes are made duplicate free before they are numbered (a {kind} listed twice would take two numbers: gaps, and a numbering that does not start at 0)", mf, c,
                      construct=f"{kind}: {norm_text(mflow.resolve(idx))[:90]}")
            ctx.check('R07.6', ok, f"{kind}s are numbered over a sorted, duplicate free index array, into a table of {kind}_count entries", mf, c,
                      construct=f"{kind}: new_element_indexes({size}, {norm_text(mflow.resolve(idx))[:70]})")
            if kind in ('edge', 'node') and core is not None:
                cr = mflow.resolve(core)
                ok_src = False
                if isinstance(cr, ast.Call) and isinstance(cr.func, ast.Attribute) and cr.func.attr == 'compressed' and isinstance(cr.func.value, ast.Subscript):
                    sub = cr.func.value
                    ok_src = norm_text(mflow.resolve(sub.value)) == want_src[kind] and norm_text(sub.slice) == 'face_indexes'
                ctx.check('R07.6', ok_src, f"kept {kind}s are exactly those listed in the kept faces' rows of {want_src[kind].split('.')[-1]}", mf, c,
                          construct=f"{kind} source: {norm_text(cr)[:80]}")
            if kind == 'face' and core is not None:
                ctx.check('R07.6', mflow.canon(core) == ('param', mf.params[0]) or norm_text(mflow.resolve(core)) == mf.params[0],
                          "kept faces are the face indexes given", mf, c, construct=f"face source: {norm_text(mflow.resolve(core))}")
        ctx.check('R07.6', set(seen) == {'face', 'edge', 'node'}, "faces, edges and nodes each get an old-to-new table", mf, mf.node, construct=f"tables for {sorted(seen)}")
        site_of = {norm_text(sz).replace('topology.', '').replace('_count', ''): site for sz, _, _, site in hcalls}
        if 'edge' in seen:
            g = [(norm_text(st.test), inb) for st, inb in enclosing_ifs(mf, site_of['edge'])]
            ctx.check('R07.6', g == [('topology.has_edge_dimension', True)], "the edge table exists exactly when the mesh has an edge dimension", mf, site_of['edge'], construct=f"edge table guard {g}")
        names = {}
        for n in walk_no_nested(mf.node):
            if isinstance(n, ast.Assign) and isinstance(n.targets[0], ast.Subscript) and norm_text(n.targets[0].value) == 'data_vars' and isinstance(n.value, ast.Call):
                d = kwarg(n.value, 'data')
                dd = kwarg(n.value, 'dims')
                names[const_value(n.targets[0].slice, None)] = (d, norm_text(dd) if dd is not None else None)
        ok = all(k in names and names[k][0] is not None and seen.get(kind) is not None
                 and (names[k][0] is seen.get(kind) or norm_text(names[k][0]) == norm_text(seen.get(kind))) and names[k][1] == f"['old_{kind}_index']" for kind, k in
                 (('face', 'new_face_index'), ('edge', 'new_edge_index'), ('node', 'new_node_index')))
        ctx.check('R07.6', ok, "each table is stored as new_<kind>_index on dimension old_<kind>_index", mf, mf.node, construct=f"mask variables {sorted(str(k) for k in names)}")



# --------------------------------------------------------------------------- checker self-test
from ..variants import V  # noqa: E402

_G = 'src/emsarray/conventions/grid.py'
_A = 'src/emsarray/conventions/arakawa_c.py'
_U = 'src/emsarray/conventions/ugrid.py'
_M = 'src/emsarray/masking.py'
VARIANTS = [
    V('C07', 'clip-drops-buffer', 'src/emsarray/conventions/_base.py', "        mask = self.make_clip_mask(clip_geomery, buffer=buffer)", "        mask = self.make_clip_mask(clip_geomery)", 'R07.8'),
    V('C07', 'clip-repairs-geometry', 'src/emsarray/conventions/_base.py', "        mask = self.make_clip_mask(clip_geomery, buffer=buffer)", "        if not clip_geomery.is_valid:\n            clip_geomery = clip_geomery.buffer(0)\n        mask = self.make_clip_mask(clip_geomery, buffer=buffer)", 'R07.8'),
    V('C07', 'benign-clip-keywords-reordered', 'src/emsarray/conventions/_base.py', "        return self.apply_clip_mask(mask, work_dir=work_dir)", "        return self.apply_clip_mask(clip_mask=mask, work_dir=work_dir)", None),
    V('C07', 'blur-visits-in-memory-order', 'src/emsarray/masking.py', "numpy.nditer(arr, ['multi_index'], order='C')", "numpy.nditer(arr, ['multi_index'])", 'R07.3'),
    V('C07', 'cf-predicate-within', _G, "        intersecting_indexes = self.strtree.query(clip_geometry, predicate='intersects')", "        intersecting_indexes = self.strtree.query(clip_geometry, predicate='within')", 'R07.1'),
    V('C07', 'ugrid-predicate-contains', _U, "        face_indexes = self.strtree.query(clip_geometry, predicate='intersects')", "        face_indexes = self.strtree.query(clip_geometry, predicate='contains')", 'R07.1'),
    V('C07', 'arakawa-envelope', _A, "        intersecting_indexes = self.strtree.query(clip_geometry, predicate='intersects')", "        intersecting_indexes = self.strtree.query(clip_geometry.envelope, predicate='intersects')", 'R07.1'),
    V('C07', 'mask-order-F', _G, "        mask = numpy.full(topology.shape, fill_value=False)", "        mask = numpy.full(topology.shape, fill_value=False, order='F')", 'R07.2'),
    V('C07', 'mask-dims-swapped', _G, "        dimensions = [topology.y_dimension, topology.x_dimension]\n\n        return xarray.Dataset(\n            data_vars={\n                'cell_mask'", "        dimensions = [topology.x_dimension, topology.y_dimension]\n\n        return xarray.Dataset(\n            data_vars={\n                'cell_mask'", 'R07.2'),
    V('C07', 'buffer-minus-one', _A, "            face_mask = masking.blur_mask(face_mask, size=buffer)", "            face_mask = masking.blur_mask(face_mask, size=buffer - 1)", 'R07.2'),
    V('C07', 'buffer-only-above-one', _G, "        if buffer > 0:\n            mask = masking.blur_mask(mask, size=buffer)", "        if buffer > 1:\n            mask = masking.blur_mask(mask, size=buffer)", 'R07.2'),
    V('C07', 'window-too-short', _M, "slice(i, i + size * 2 + 1)", "slice(i, i + size * 2)", 'R07.3'),
    V('C07', 'pad-size-minus-one', _M, "    padded = numpy.pad(arr, size, constant_values=False)", "    padded = numpy.pad(arr, size - 1, constant_values=False) if size > 1 else numpy.pad(arr, size, constant_values=False)", 'R07.3'),
    V('C07', 'pad-true', _M, "    padded = numpy.pad(arr, size, constant_values=False)", "    padded = numpy.pad(arr, size, constant_values=True)", 'R07.3'),
    V('C07', 'blur-shortcut-wide-window', _M, "    padded = numpy.pad(arr, size, constant_values=False)", "    if size * 2 + 1 > max(arr.shape):\n        return numpy.full_like(arr, fill_value=arr.any())\n    padded = numpy.pad(arr, size, constant_values=False)", 'R07.3'),
    V('C07', 'left-smeared-first-axis', _A, "    left_mask = masking.smear_mask(face_mask, [False, True])", "    left_mask = masking.smear_mask(face_mask, [True, False])", 'R07.4'),
    V('C07', 'smear-one-shift', _M, "        [(1, 0), (0, 1)] if pad_axis else [(0, 0)]", "        [(1, 0)] if pad_axis else [(0, 0)]", 'R07.4'),
    V('C07', 'smear-and', _M, "    return functools.reduce(operator.or_, (numpy.pad(arr, pad) for pad in paddings))", "    return functools.reduce(operator.and_, (numpy.pad(arr, pad) for pad in paddings))", 'R07.4'),
    V('C07', 'blur-xor', _M, "        arr[index] or numpy.any(", "        arr[index] ^ numpy.any(", ('R07.5', 'R07.3')),
    V('C07', 'ugrid-one-ring-only', _U, "        for _ in range(buffer):\n            face_indexes = buffer_faces(face_indexes, self.topology)", "        if buffer:\n            face_indexes = buffer_faces(face_indexes, self.topology)", 'R07.6'),
    V('C07', 'ring-drops-originals', _U, "        if face_index in original_face_indexes\n        # ... or shares a node with one of the original faces\n        or bool(", "        if bool(", 'R07.6'),
    V('C07', 'faces-unsorted-again', _U, "    face_indexes = numpy.sort(numpy.unique(face_indexes))\n", "", 'R07.6'),
    V('C07', 'edges-from-node-membership', _U, "        edge_indexes = numpy.sort(numpy.unique(face_edge[face_indexes].compressed()))", "        kept_nodes = numpy.unique(topology.face_node_array[face_indexes].compressed())\n        edge_indexes = numpy.flatnonzero(numpy.isin(topology.edge_node_array, kept_nodes).all(axis=1))", 'R07.6'),
    V('C07', 'nodes-unsorted', _U, "    node_indexes = numpy.sort(numpy.unique(face_node[face_indexes].compressed()))", "    node_indexes = face_node[face_indexes].compressed()", 'R07.6'),
]
