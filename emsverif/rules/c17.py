"""C17 - saving with the EMS fixes preserves data, geometry and time instants."""
from __future__ import annotations

import ast

from ..cfg import stmt_of
from ..model import const_value, dotted, kwarg, norm_text, walk_no_nested
from ..report import Context
from .common import arg_or_kw, calls_in, callee, enclosing_ifs, is_none, method_calls

UTILS = 'emsarray.utils'
BASE = 'emsarray.conventions._base.Convention'
NSC = 'emsarray.exceptions.NoSuchCoordinateError'


def _exc_names(h: ast.ExceptHandler) -> list[str]:
    if h.type is None:
        return ['BaseException']
    if isinstance(h.type, ast.Tuple):
        return [(dotted(e) or '').rsplit('.', 1)[-1] for e in h.type.elts]
    return [(dotted(h.type) or '').rsplit('.', 1)[-1]]


def exception_ancestors(ctx, qual: str) -> set[str]:
    """Names of the classes a handler may name to catch `qual` (repo MRO plus builtin ancestry)."""
    p = ctx.p
    ci = p.cls(qual)
    names = set()
    builtin_up = {'KeyError': ['LookupError', 'Exception', 'BaseException'], 'ValueError': ['Exception', 'BaseException'],
                  'Exception': ['BaseException'], 'RuntimeError': ['Exception', 'BaseException'], 'LookupError': ['Exception', 'BaseException']}
    todo = [ci.qualname]
    while todo:
        q = todo.pop()
        short = q.rsplit('.', 1)[-1]
        names.add(short)
        if q in p.classes:
            todo.extend(p.classes[q].bases)
        else:
            for up in builtin_up.get(short, []):
                names.add(up)
    return names


def fstring_tokens(flow, node: ast.AST):
    """Tokens of an f-string: ('lit', text) | ('field', value expr, spec text or None, conversion)."""
    node = flow.resolve(node)
    if isinstance(node, ast.Constant) and isinstance(node.value, str):
        return [('lit', node.value)]
    if not isinstance(node, ast.JoinedStr):
        return None
    out = []
    for v in node.values:
        if isinstance(v, ast.Constant):
            out.append(('lit', v.value))
        elif isinstance(v, ast.FormattedValue):
            spec = None
            if v.format_spec is not None:
                if all(isinstance(x, ast.Constant) for x in v.format_spec.values):
                    spec = ''.join(x.value for x in v.format_spec.values)
                else:
                    spec = '<dynamic>'
            out.append(('field', v.value, spec, v.conversion))
    return out


def run(ctx: Context) -> None:
    p = ctx.p
    ctx.rule('R17.1', "sign-magnitude: the parsed UTC offset passes through abs() before divmod / // / %", floor=1)
    ctx.rule('R17.2', "writer within reader grammar: the offset is written as an explicit sign chosen by `offset < 0`, then two-digit zero padded non-negative hours, ':', two-digit minutes; the unit string is '<period> since YYYY(zero padded)-%m-%d %H:%M:%S <offset>' with the epoch expressed in that same offset", floor=5)
    ctx.rule('R17.3', "the re-parse comparison dominates the return and its failure raises", floor=2)
    ctx.rule('R17.4', "to_netcdf_with_fixes works on a shallow copy, suppresses default fill values on the copy before writing, and rewrites the time units after the write and only when a time variable is given; the suppression never overrides an existing _FillValue", floor=7)
    ctx.rule('R17.5', "exception agreement: time_coordinate raises NoSuchCoordinateError and every handler around it names one of its ancestors; the save method forwards dataset, path and options; the time variable is discovered by its decoded units alone", floor=7)
    from . import infra as _infra175
    _infra175.shoc_time_names(ctx, 'R17.5')
    ctx.rule('R17.6', "helpers of the save path: the time variable is found among all variables, fill suppression visits every variable, and the default calendar is the proleptic Gregorian one", floor=4)
    from . import infra as _infra
    _infra.lookup_namespace(ctx, 'R17.6', ['time_coordinate'])
    _infra.constant_name_lookups(ctx, 'R17.6', ['time_coordinate'])
    _infra.all_variables_visited(ctx, 'R17.6')
    _infra.default_calendar(ctx, 'R17.6')
    ctx.assume("cftime 1.6.5 reads a UTC offset only with a two digit hour ([+-]HH, [+-]HHMM, [+-]HH:MM; checked once against the installed version): '+8', '+8:00' and '-0:30' are read as offset 0, which is why R17.1 demands the padding")
    ctx.assume("NOT decided: identity of values and polygons after the netCDF round trip (xarray / netCDF4 at run time)")

    fi = ctx.func(f"{UTILS}.format_time_units_for_ems")
    flow = ctx.flow(fi)
    cfg = ctx.cfg(fi)
    # the source: last element of cftime._parse_date(...)
    parse = [c for c in calls_in(fi) if (callee(ctx, fi, c) or '').endswith('cftime._parse_date')]
    ctx.need('R17.1', len(parse) == 1, "the unit string is parsed with cftime._parse_date", fi)
    pc = parse[0]

    def is_source(n: ast.AST) -> bool:
        return isinstance(n, ast.Subscript) and const_value(n.slice, None) == -1 and flow.reaches(n.value, lambda m: m is pc, depth=6)

    # ---- the string that is parsed: the caller's units, with a one digit offset hour padded (cftime reads '+8' or '-3:30' as offset 0)
    split = [c for c in calls_in(fi) if (callee(ctx, fi, c) or '').endswith('cftime._datesplit')]
    subs = [c for c in calls_in(fi) if callee(ctx, fi, c) == 're.sub' and len(c.args) == 3]
    ok_split = len(split) == 1 and len(split[0].args) == 1 and flow.canon(split[0].args[0]) == ('param', fi.params[0])
    ctx.check('R17.1', ok_split, "the caller's unit string is split into period and date once", fi, split[0] if split else fi.node)
    pad_ok, pad_why = False, 'no re.sub on the date string'
    if len(subs) == 1 and ok_split:
        pat, rep = const_value(subs[0].args[0], None), const_value(subs[0].args[1], None)
        subject = flow.resolve(subs[0].args[2])
        stripped = False
        while isinstance(subject, ast.Call) and isinstance(subject.func, ast.Attribute) and subject.func.attr in ('strip', 'rstrip') and not subject.args:
            subject = flow.resolve(subject.func.value)
            stripped = True
        from_split = flow.reaches(subs[0].args[2], lambda m: m is split[0], depth=6)
        if isinstance(pat, str) and isinstance(rep, str) and from_split:
            # constant folding of the substitution over the spellings of a UTC offset
            import re as _re
            want = {'1990-01-01 00:00:00 +8': '1990-01-01 00:00:00 +08', '1990-01-01 00:00:00 -9': '1990-01-01 00:00:00 -09',
                    '1990-01-01 00:00:00 +9:30': '1990-01-01 00:00:00 +09:30', '1990-01-01 12:00:00 -0:30': '1990-01-01 12:00:00 -00:30',
                    '1990-01-01T00:00:00-9': '1990-01-01T00:00:00-09', '1990-01-01 00:00 +8': '1990-01-01 00:00 +08',
                    '1990-01-01 00:00:00.5 +8': '1990-01-01 00:00:00.5 +08'}
            same = ['1990-01-01 00:00:00 +10', '1990-01-01 00:00:00 +10:00', '1990-01-01T00:00:00+10:00', '1990-01-01 00:00:00 -0930', '1990-01-01 00:00:00',
                    '1990-01-01', '0001-01-01 00:00:00', '1990-01-01 00:00:00Z', '1990-01-01 00:00:00 +08', '2021-11-11 10:20:30.25 -11:00']
            try:
                got = {k: _re.sub(pat, rep, k) for k in list(want) + same}
                bad = [k for k in want if got[k] != want[k]] + [k for k in same if got[k] != k]
                if not stripped:
                    # the date part of a blank padded attribute ends in blanks: a substitution that sees them has to cope with them
                    bad += [f"{k!r} followed by blanks" for k in want if _re.sub(pat, rep, k + '  ').strip() != want[k]]
                pad_ok, pad_why = not bad, (f"folded over {len(got)} spellings: all as required" if not bad else f"wrong for {bad[:3]}")
            except _re.error as exc:
                pad_why = f"pattern does not compile: {exc}"
    ctx.check('R17.1', pad_ok, "a one digit hour in the UTC offset ('+8', '-9', '+9:30') is padded to two digits before cftime sees the string, and every other spelling is left as it is "
              "(cftime reads a one digit hour as offset 0 without complaint, and the re-parse check compares cftime with cftime)", fi, subs[0] if subs else fi.node,
              construct=f"re.sub on the date string: {pad_why}")

    def normalised_date(e) -> bool:
        """e is the padded date string (the re.sub result)."""
        return bool(subs) and flow.reaches(e, lambda m: m is subs[0], depth=4) and not flow.reaches(e, lambda m: isinstance(m, ast.Call) and m is not subs[0]
                                                                                                       and callee(ctx, fi, m) == 're.sub', depth=4)

    def is_units(e) -> bool:
        """e is the unit string that is parsed: '<period> since <padded date>' rebuilt from the split of the caller's units."""
        v = flow.resolve(e)
        if not isinstance(v, ast.JoinedStr):
            return False
        parts = [x for x in v.values]
        if len(parts) != 3 or not isinstance(parts[1], ast.Constant) or parts[1].value != ' since ':
            return False
        a, b = parts[0], parts[2]
        if not (isinstance(a, ast.FormattedValue) and isinstance(b, ast.FormattedValue)):
            return False
        ok_a = flow.reaches(a.value, lambda m: m is split[0], depth=4) if split else False
        return ok_a and normalised_date(b.value)
    ctx.check('R17.1', len(pc.args) == 1 and normalised_date(pc.args[0]), "the offset is parsed from that padded date string", fi, pc, construct=f"_parse_date({norm_text(pc.args[0]) if pc.args else ''})")

    sinks = []
    for n in ast.walk(fi.node):
        if isinstance(n, ast.Call) and dotted(n.func) == 'divmod' and n.args:
            sinks.append((n, n.args[0]))
        elif isinstance(n, ast.BinOp) and isinstance(n.op, (ast.FloorDiv, ast.Mod)) and not isinstance(n.left, (ast.Constant, ast.JoinedStr)):
            sinks.append((n, n.left))
    tainted = 0
    for sink, operand in sinks:
        hits = [(n, path) for n, path in flow.expand(operand) if is_source(n)]
        if not hits and not is_source(flow.resolve(operand)):
            continue
        tainted += 1
        ok = all(any(isinstance(a, ast.Call) and dotted(a.func) == 'abs' for a in path) for n, path in hits) and bool(hits)
        ctx.check('R17.1', ok, "abs() is applied between the signed offset and the division", fi, sink,
                  construct=f"{norm_text(sink)}")
    ctx.need('R17.1', tainted >= 1, "the offset is split into hours and minutes by a division of the parsed offset", fi)

    # ---- R17.2 the offset string
    with ctx.section('R17.2 the offset string'):
        rets = fi.returns()
        ctx.need('R17.2', len(rets) == 1, "format_time_units_for_ems has one return", fi)
        units_tokens = fstring_tokens(flow, rets[0].value)
        ctx.need('R17.2', units_tokens is not None and len(units_tokens) >= 5, "the new unit string is an f-string", fi)
        # the offset may be a string of its own (`{offset_string}`) or written out at the end of the unit string:
        # sign, hours, ':', minutes.  Both read as one trailing offset field.
        offset_tokens = None
        if units_tokens[-1][0] == 'field' and units_tokens[-1][2] is None:
            offset_tokens = fstring_tokens(flow, units_tokens[-1][1])
        if (offset_tokens is None or len(offset_tokens) != 4) and len(units_tokens) >= 9 and [t[0] for t in units_tokens[-4:]] == ['field', 'field', 'lit', 'field'] \
                and units_tokens[-5] == ('lit', ' '):
            offset_tokens = units_tokens[-4:]
            units_tokens = units_tokens[:-4] + [('field', ast.Constant(value='<offset written out>'), None, -1)]
        lits = [t[1] for t in units_tokens if t[0] == 'lit']
        # '<period> since <epoch pieces> <offset>': the epoch may be written by several fields of one datetime
        ok_shape = (len(units_tokens) >= 5 and units_tokens[0][0] == 'field' and units_tokens[1] == ('lit', ' since ') and units_tokens[-1][0] == 'field'
                    and units_tokens[-2] == ('lit', ' ') and all(t[0] == 'field' or ' ' not in t[1] for t in units_tokens[2:-2]))
        ctx.check('R17.2', ok_shape, "unit string = '<period> since <epoch> <offset>'", fi, rets[0], construct=f"literal parts {lits}")
        if ok_shape:
            period, offset = units_tokens[0], units_tokens[-1]
            epoch_tokens = units_tokens[2:-2]
            pcv = flow.canon(period[1])
            ok_period = pcv[0] == 'unpack' and pcv[2] == (0,) and 'cftime' in repr(pcv[1]) and '_datesplit' in repr(pcv[1])
            ctx.check('R17.2', ok_period, "the period is the one split off the input unit string", fi, rets[0], construct=f"period = {norm_text(flow.resolve(period[1]))}")
            # rendered epoch format: strftime specs as written, `<dt>.year:04d` as %Y4 (zero padded); bare %Y is NOT padded below year 1000
            rendered = ''
            owners = []
            for t in epoch_tokens:
                if t[0] == 'lit':
                    rendered += t[1]
                    continue
                v = flow.resolve(t[1])
                if isinstance(v, ast.Attribute) and v.attr == 'year' and t[2] in ('04d', '04', '0>4d', '0>4'):
                    rendered += '%Y4'
                    owners.append(v.value)
                elif t[2] is not None and '%' in t[2]:
                    rendered += t[2]
                    owners.append(t[1])
                else:
                    rendered += '?'
            ctx.check('R17.2', rendered == '%Y4-%m-%d %H:%M:%S', "the epoch is written as a four digit zero padded year, then -%m-%d %H:%M:%S (strftime %Y is not padded for years before 1000)", fi, rets[0],
                      construct=f"epoch format {rendered!r}")
            same_owner = bool(owners) and len({repr(flow.canon(o)) for o in owners}) == 1
            ctx.check('R17.2', same_owner, "every piece of the epoch is taken from the same shifted reference instant", fi, rets[0],
                      construct=f"epoch pieces from {sorted({norm_text(o) for o in owners})}")
            epoch = ('field', owners[0] if owners else units_tokens[2][1], None)
            # epoch = reference.replace(tzinfo=UTC).astimezone(FixedOffset(offset_total))
            ev = flow.resolve(epoch[1])
            ok_epoch = False
            if isinstance(ev, ast.Call) and isinstance(ev.func, ast.Attribute) and ev.func.attr == 'astimezone' and len(ev.args) == 1:
                tz = flow.resolve(ev.args[0])
                rep = flow.resolve(ev.func.value)
                ok_tz = (isinstance(tz, ast.Call) and (callee(ctx, fi, tz) or '').endswith('FixedOffset') and len(tz.args) == 1
                         and (is_source(flow.resolve(tz.args[0])) or
                              (isinstance(flow.resolve(tz.args[0]), ast.Call) and dotted(flow.resolve(tz.args[0]).func) == 'int'
                               and is_source(flow.resolve(flow.resolve(tz.args[0]).args[0])))))
                ok_rep = (isinstance(rep, ast.Call) and isinstance(rep.func, ast.Attribute) and rep.func.attr == 'replace'
                          and kwarg(rep, 'tzinfo') is not None and norm_text(kwarg(rep, 'tzinfo')).endswith('UTC'))
                ref = flow.resolve(rep.func.value) if ok_rep else None
                ok_ref = (isinstance(ref, ast.Call) and (callee(ctx, fi, ref) or '').endswith('num2pydate') and len(ref.args) == 3
                          and const_value(ref.args[0], None) == 0 and is_units(ref.args[1])
                          and flow.canon(ref.args[2]) == ('param', fi.params[1]))
                ok_epoch = ok_tz and ok_rep and ok_ref
            ctx.check('R17.2', ok_epoch, "the epoch is the original reference instant expressed in the parsed offset (unsigned change: FixedOffset(offset))", fi, rets[0],
                      construct=f"epoch = {norm_text(ev)}")
            otoks = offset_tokens
            ok_off = False
            detail = norm_text(flow.resolve(offset[1]))
            if otoks is not None and len(otoks) == 4 and [t[0] for t in otoks] == ['field', 'field', 'lit', 'field'] and otoks[2][1] == ':':
                sign, hours, _, minutes = otoks
                sv = flow.resolve(sign[1])
                ok_sign = (isinstance(sv, ast.IfExp) and const_value(sv.body, None) == '-' and const_value(sv.orelse, None) == '+'
                           and isinstance(sv.test, ast.Compare) and len(sv.test.ops) == 1 and isinstance(sv.test.ops[0], ast.Lt)
                           and const_value(sv.test.comparators[0], None) == 0 and is_source(flow.resolve(sv.test.left))
                           and sign[2] is None)
                ok_sign = ok_sign or (isinstance(sv, ast.IfExp) and const_value(sv.body, None) == '+' and const_value(sv.orelse, None) == '-'
                                      and isinstance(sv.test, ast.Compare) and isinstance(sv.test.ops[0], ast.GtE)
                                      and const_value(sv.test.comparators[0], None) == 0 and is_source(flow.resolve(sv.test.left)) and sign[2] is None)
                hc, mc = flow.canon(hours[1]), flow.canon(minutes[1])
                from_divmod = (hc[0] == 'unpack' and mc[0] == 'unpack' and hc[1] == mc[1] and hc[2] == (0,) and mc[2] == (1,)
                               and hc[1][0] == 'call' and hc[1][1] == ('global', 'divmod'))
                div60 = False
                if from_divmod:
                    dm = [c for c in calls_in(fi) if dotted(c.func) == 'divmod']
                    div60 = len(dm) == 1 and len(dm[0].args) == 2 and const_value(dm[0].args[1], None) == 60
                ok_fields = hours[2] == '02d' and minutes[2] == '02d'
                ok_off = ok_sign and from_divmod and div60 and ok_fields
                detail = f"sign={norm_text(sv)}; hours spec {hours[2]!r}; minutes spec {minutes[2]!r}; divmod(.., 60)={div60}"
            ctx.check('R17.2', ok_off, "offset = explicit sign + %02d hours + ':' + %02d minutes of divmod(|offset|, 60)", fi, rets[0],
                      construct=f"offset string: {detail}")

    # ---- R17.3
    with ctx.section('R17.3'):
        guard = None
        for n in walk_no_nested(fi.node):
            if isinstance(n, ast.If) and any(isinstance(s, ast.Raise) for s in n.body) and not n.orelse:
                t = n.test
                if isinstance(t, ast.Compare) and len(t.ops) == 1 and isinstance(t.ops[0], ast.NotEq):
                    a, b = flow.resolve(t.left), flow.resolve(t.comparators[0])
                    for x, y in ((a, b), (b, a)):
                        if isinstance(x, ast.Call) and (callee(ctx, fi, x) or '').endswith('num2pydate') and len(x.args) == 3 \
                                and const_value(x.args[0], None) == 0 and flow.canon(x.args[1]) == flow.canon(rets[0].value) \
                                and flow.canon(x.args[2]) == ('param', fi.params[1]) \
                                and isinstance(y, ast.Call) and (callee(ctx, fi, y) or '').endswith('num2pydate') \
                                and is_units(y.args[1]):
                            guard = n
        ctx.check('R17.3', guard is not None, "the new string is re-parsed (same calendar) and compared with the original reference instant", fi,
                  guard or fi.node, construct=f"re-parse test: {norm_text(guard.test) if guard is not None else 'absent'}")
        ctx.check('R17.3', guard is not None and cfg.dominates(guard, rets[0]), "that comparison dominates the return; a mismatch raises", fi, rets[0])

    # ---- R17.4
    with ctx.section('R17.4'):
        tn = ctx.func(f"{UTILS}.to_netcdf_with_fixes")
        tflow = ctx.flow(tn)
        tcfg = ctx.cfg(tn)
        ds = tn.params[0]
        copies = [c for c in method_calls(tn, 'copy') if tflow.canon(c.func.value) == ('param', ds)]
        writes = [c for c in method_calls(tn, 'to_netcdf')]
        fills = [c for c in calls_in(tn) if callee(ctx, tn, c) == f"{UTILS}.disable_default_fill_value"]
        fixes = [c for c in calls_in(tn) if callee(ctx, tn, c) == f"{UTILS}.fix_time_units_for_ems"]
        ctx.need('R17.4', len(writes) == 1 and len(fills) == 1 and len(fixes) == 1, "to_netcdf_with_fixes suppresses fill values, writes, and fixes the time units", tn)
        wr, fl, fx = writes[0], fills[0], fixes[0]
        ok_copy = False
        if copies:
            st = stmt_of(tn, copies[0])
            deep = kwarg(copies[0], 'deep')
            ok_copy = isinstance(st, ast.Assign) and isinstance(st.targets[0], ast.Name) and (deep is None or const_value(deep, None) is False)
        ctx.check('R17.4', ok_copy, "the dataset is shallow-copied before anything is changed", tn, copies[0] if copies else tn.node,
                  construct=f"copy: {norm_text(copies[0]) if copies else 'absent'}")

        def is_copy(expr) -> bool:
            return isinstance(expr, ast.Name) and copies and not any(d.kind == 'param' for d in tflow.defs_of(expr)) \
                and tflow.reaches(expr, lambda n: n is copies[0])

        ctx.check('R17.4', bool(fl.args) and is_copy(fl.args[0]), "default fill values are suppressed on the copy, not on the caller's dataset", tn, fl)
        ctx.check('R17.4', is_copy(wr.func.value), "the copy (with the suppression applied) is what gets written", tn, wr,
                  construct=f"{norm_text(wr.func.value)}.to_netcdf(...)")
        ctx.check('R17.4', tcfg.dominates(stmt_of(tn, fl), stmt_of(tn, wr)), "the suppression happens before the write", tn, wr,
                  construct='disable_default_fill_value(...) dominates to_netcdf(...)')
        ok_path = bool(wr.args) and tflow.canon(wr.args[0]) == ('param', tn.params[1]) and any(k.arg is None for k in wr.keywords)
        ctx.check('R17.4', ok_path, "the file is written to the caller's path with the caller's options", tn, wr)
        # a caller's `encoding=` replaces a variable's whole encoding, marker included: the marker is carried into it
        kwn = next((k.value.id for k in wr.keywords if k.arg is None and isinstance(k.value, ast.Name)), None)
        carries = [n for n in walk_no_nested(tn.node) if isinstance(n, ast.Assign) and isinstance(n.targets[0], ast.Subscript)
                   and const_value(n.targets[0].slice, None) == 'encoding' and isinstance(n.targets[0].value, ast.Name) and n.targets[0].value.id == kwn]
        ok_carry, why = False, 'the encoding argument is passed on as it is'
        if len(carries) == 1:
            from .common import Undecided, item_outcome
            st_c = carries[0]
            copy_name = norm_text(wr.func.value)
            # the mapping is built one item at a time: by a dictionary comprehension, or by a loop filling a fresh dictionary
            built = tflow.resolve(st_c.value)
            builder = it_ = tgt_ = slot = first = None
            if isinstance(built, ast.DictComp) and len(built.generators) == 1:
                builder, it_, tgt_, slot, first = built, built.generators[0].iter, built.generators[0].target, '<comp>', st_c
            elif isinstance(st_c.value, ast.Name) and ((isinstance(built, ast.Dict) and not built.keys) or (isinstance(built, ast.Call) and dotted(built.func) == 'dict' and not built.args and not built.keywords)):
                loops = [n for n in walk_no_nested(tn.node) if isinstance(n, ast.For) and not n.orelse
                         and any(isinstance(x, ast.Subscript) and isinstance(x.ctx, ast.Store) and norm_text(x.value) == st_c.value.id for x in ast.walk(n))]
                others = [x for x in ast.walk(tn.node) if isinstance(x, ast.Name) and x.id == st_c.value.id and isinstance(x.ctx, ast.Load)
                          and x is not st_c.value and not any(x is y.value for l_ in loops for y in ast.walk(l_) if isinstance(y, ast.Subscript))]
                if len(loops) == 1 and not others:
                    builder, it_, tgt_, slot, first = loops[0].body, loops[0].iter, loops[0].target, st_c.value.id, loops[0]
            why = 'the way the encoding argument is rebuilt is not understood'
            if builder is not None and isinstance(tgt_, ast.Tuple) and len(tgt_.elts) == 2 and all(isinstance(e_, ast.Name) for e_ in tgt_.elts) \
                    and isinstance(it_, ast.Call) and isinstance(it_.func, ast.Attribute) and it_.func.attr == 'items' and not it_.args \
                    and norm_text(tflow.resolve(it_.func.value)) in (f"{kwn}['encoding']", f"{kwn}.get('encoding')"):
                k_, v_ = tgt_.elts[0].id, tgt_.elts[1].id
                a_known = f"{k_} in {copy_name}.variables"
                a_marker = f"{copy_name}.variables[{k_}].encoding.get('_FillValue', 0) is None"
                ok_carry = True
                verdicts = []
                # every named variable of the copy counts (coordinates carry markers too); a name the dataset lacks is left for xarray to refuse
                for known, marker in ((True, True), (True, False), (False, None)):
                    try:
                        out = item_outcome(builder, {a_known: known, a_marker: marker})
                    except Undecided as e:
                        ok_carry = False
                        verdicts.append(f"{'known' if known else 'unknown'} variable, marker {marker}: cannot tell, `{e}` is not one of the two questions asked")
                        continue
                    out = [(m, k, v) for m, k, v in out if m == slot]
                    if len(out) != 1 or out[0][1] != k_:
                        ok_carry = False
                        verdicts.append(f"{'known' if known else 'unknown'} variable, marker {marker}: {len(out)} entries stored")
                        continue
                    v = out[0][2]
                    if known and marker:
                        # caller's keys win: the ** expansion of the given encoding comes after the marker
                        good = (isinstance(v, ast.Dict) and len(v.keys) == 2 and v.keys[0] is not None and const_value(v.keys[0], None) == '_FillValue'
                                and const_value(v.values[0], 0) is None and v.keys[1] is None and norm_text(v.values[1]) == v_)
                    else:
                        good = norm_text(v) == v_
                    ok_carry = ok_carry and good
                    verdicts.append(f"{'known' if known else 'unknown'} variable, marker {'None' if marker else 'absent'}: {norm_text(v)[:40]}")
                after_marker = tcfg.dominates(stmt_of(tn, fl), first) and tcfg.dominates(first, st_c) and st_c.lineno < stmt_of(tn, wr).lineno
                ok_carry = ok_carry and after_marker
                why = f"kwargs['encoding'] rebuilt per item: {'; '.join(verdicts)}"
        if len(carries) == 1 and ok_carry:
            # ... whenever the caller gave one: the rebuilding stands under no other test than "an encoding was given"
            from .common import facts as _f174
            fs_c = _f174(ctx, tn, carries[0], expand=False)
            about = {(t, pol) for t, pol in fs_c if kwn is not None and kwn in t}
            given_forms = ({(f"{kwn}.get('encoding')", True)}, {(f"'encoding' in {kwn}", True)}, {(f"{kwn}.get('encoding') is not None", True)}, {(f"{kwn}.get('encoding') is None", False)}, set())
            if about not in given_forms:
                ok_carry, why = False, f"the encoding argument is rebuilt under {sorted(t if pol else 'not ' + t for t, pol in about)}"
        ctx.check('R17.4', ok_carry, "an `encoding` argument cannot undo the suppression: for every variable it names whose marker says 'no fill value', that marker is put into the "
                  "given encoding (the caller's own _FillValue wins), after the suppression and before the write", tn, carries[0] if carries else wr, construct=why)
        from .common import positive_conditions
        g = [(norm_text(t), pol) for t, pol in positive_conditions(tn, fx)]
        # exactly "a time variable was given": any further condition lets a file keep units EMS cannot read
        ok_fix = (g == [(f"{tn.params[2]} is None", False)] and tcfg.dominates(stmt_of(tn, wr), stmt_of(tn, fx))
                  and len(fx.args) == 2 and tflow.canon(fx.args[0]) == ('param', tn.params[1]))
        nm = tflow.resolve(fx.args[1]) if len(fx.args) == 2 else None
        ok_nm = (isinstance(nm, ast.Call) and callee(ctx, tn, nm) == f"{UTILS}.data_array_to_name" and len(nm.args) == 2
                 and tflow.canon(nm.args[1]) == ('param', tn.params[2]))
        ctx.check('R17.4', ok_fix and ok_nm, "the time units of the given time variable are rewritten in the written file, after the write, exactly when a time variable is given", tn, fx,
                  construct=f"fix_time_units_for_ems(...) under {g}")
        dd = ctx.func(f"{UTILS}.disable_default_fill_value")
        sets = [n for n in ast.walk(dd.node) if isinstance(n, ast.Assign) and isinstance(n.targets[0], ast.Subscript)
                and const_value(n.targets[0].slice, None) == '_FillValue']
        ok_dd = False
        ddflow = ctx.flow(dd)
        from .common import positive_conditions
        for n in sets:
            conds = positive_conditions(dd, n)
            holder = n.targets[0].value          # <variable>.encoding
            var_txt = norm_text(holder.value) if isinstance(holder, ast.Attribute) and holder.attr == 'encoding' else None
            has = {(norm_text(t), pol) for t, pol in conds}
            same_dtype = False
            for t, pol in conds:
                if isinstance(t, ast.Compare) and len(t.ops) == 1 and isinstance(t.ops[0], ast.Eq) and pol:
                    sides = [t.left, t.comparators[0]]
                    res = [ddflow.resolve(x) for x in sides]
                    for cur_i, pro_i in ((0, 1), (1, 0)):
                        cur_ok = var_txt is not None and norm_text(res[cur_i]) == f"{var_txt}.dtype"
                        pro_ok = False
                        if isinstance(sides[pro_i], ast.Name):
                            d = ddflow.single_def(sides[pro_i])
                            if d is not None and d.kind == 'unpack' and isinstance(d.value, ast.Call) and callee(ctx, dd, d.value) == 'xarray.core.dtypes.maybe_promote' \
                                    and len(d.value.args) == 1 and norm_text(ddflow.resolve(d.value.args[0])) == f"{var_txt}.dtype" and getattr(d, 'index', (0,)) in ((0,), 0, None):
                                pro_ok = True
                        elif isinstance(res[pro_i], ast.Subscript) and const_value(res[pro_i].slice, None) == 0 and isinstance(ddflow.resolve(res[pro_i].value), ast.Call) \
                                and callee(ctx, dd, ddflow.resolve(res[pro_i].value)) == 'xarray.core.dtypes.maybe_promote':
                            pro_ok = True
                        if cur_ok and pro_ok:
                            same_dtype = True
            ok_dd = (is_none(n.value) and var_txt is not None and (f"'_FillValue' in {var_txt}.encoding", False) in has
                     and (f"'_FillValue' in {var_txt}.attrs", False) in has and same_dtype)
        ctx.check('R17.4', ok_dd and len(sets) == 1, "_FillValue=None is set in the encoding exactly for variables whose dtype can hold its own missing value (maybe_promote leaves it unchanged: floats, datetimes, timedeltas - the ones xarray would give a default fill) and only when neither encoding nor attrs define one", dd,
                  sets[0] if sets else dd.node)
        fu = ctx.func(f"{UTILS}.fix_time_units_for_ems")
        fuflow = ctx.flow(fu)
        fmts = [c for c in calls_in(fu) if callee(ctx, fu, c) == f"{UTILS}.format_time_units_for_ems"]
        setters = [c for c in method_calls(fu, 'setncattr')]
        ok_fu = (len(fmts) == 1 and len(setters) == 1 and const_value(setters[0].args[0], None) == 'units'
                 and fuflow.resolve(setters[0].args[1]) is fmts[0] and len(fmts[0].args) == 2)
        if ok_fu:
            u = fuflow.resolve(fmts[0].args[0])
            while isinstance(u, ast.Call) and (dotted(u.func) or '').endswith('cast'):
                u = fuflow.resolve(u.args[1])
            ok_fu = isinstance(u, ast.Call) and isinstance(u.func, ast.Attribute) and u.func.attr == 'getncattr' \
                and const_value(u.args[0], None) == 'units' and fuflow.canon(u.func.value) == fuflow.canon(setters[0].func.value)
        opens = [c for c in calls_in(fu) if (callee(ctx, fu, c) or '').endswith('netCDF4.Dataset')]
        ok_open = len(opens) == 1 and len(opens[0].args) >= 2 and const_value(opens[0].args[1], None) == 'r+' \
            and fuflow.canon(opens[0].args[0]) == ('param', fu.params[0])
        ctx.check('R17.4', ok_fu and ok_open, "the units attribute of that variable is replaced by its EMS form in place (file opened r+)", fu,
                  setters[0] if setters else fu.node)

    # ---- R17.5
    with ctx.section('R17.5'):
        base = p.cls(BASE)
        anc = exception_ancestors(ctx, NSC)
        for tc in p.implementations(base, 'time_coordinate'):
            raises = [n for n in ast.walk(tc.node) if isinstance(n, ast.Raise) and n.exc is not None]
            names = [(dotted(r.exc.func) if isinstance(r.exc, ast.Call) else dotted(r.exc)) or '' for r in raises]
            ok = bool(raises) and all(n.rsplit('.', 1)[-1] == 'NoSuchCoordinateError' for n in names)
            ctx.check('R17.5', ok, "a missing time coordinate is reported as NoSuchCoordinateError", tc, raises[0] if raises else tc.node,
                      construct=f"{tc.short} raises {sorted(set(names))}")
            if tc.qualname != f"{BASE}.time_coordinate":
                # a convention that knows its time variable by name refuses only when that name is absent: to_netcdf reads any
                # refusal as "no time variable" and then leaves the units as xarray writes them
                from .common import facts as _facts
                odd = []
                for r in raises:
                    for t, pol in _facts(ctx, tc, r, expand=False):
                        if not (pol is False and ' in self.dataset' in t and 'dtype' not in t):
                            odd.append(f"`{t}` is {pol}")
                ctx.check('R17.5', not odd, "a time variable known by name is the time coordinate whenever the dataset has it - decoded to datetime64, to cftime objects, or not decoded: "
                          "the refusal depends on nothing but the name being absent", tc, raises[0] if raises else tc.node,
                          construct=f"{tc.short}: other conditions leading to a refusal: {odd or 'none'}")
        # discovery criteria of the generic time coordinate: nothing but "decoded from '<unit> since <epoch>'"
        gtc = ctx.func(f"{BASE}.time_coordinate")
        gflow = ctx.flow(gtc)
        from .common import positive_conditions
        for r in gtc.returns():
            var_c = gflow.canon(r.value)
            kinds = []
            for t, pol in positive_conditions(gtc, r):
                k = 'other: ' + norm_text(t)
                if isinstance(t, ast.Compare) and len(t.ops) == 1 and pol is True:
                    left, right = t.left, gflow.resolve(t.comparators[0])
                    if isinstance(t.ops[0], ast.In) and const_value(left, None) == 'units' and isinstance(right, ast.Attribute) and right.attr == 'encoding' \
                            and gflow.canon(right.value) == var_c:
                        k = 'has-units'
                    elif isinstance(t.ops[0], ast.In) and const_value(left, None) == 'since' and isinstance(right, ast.Subscript) and const_value(right.slice, None) == 'units' \
                            and isinstance(gflow.resolve(right.value), ast.Attribute) and gflow.resolve(right.value).attr == 'encoding':
                        k = 'units-since'
                    elif isinstance(t.ops[0], ast.Eq) and 'datetime64' in norm_text(right) and norm_text(gflow.resolve(left)).endswith('.dtype.type'):
                        k = 'is-datetime'
                    elif isinstance(t.ops[0], ast.In) and isinstance(right, ast.Call) and callee(ctx, gtc, right) == 'emsarray.utils.bounds_variable_names':
                        k = 'a-bounds-variable'
                elif isinstance(t, ast.Compare) and len(t.ops) == 1 and pol is False and isinstance(t.ops[0], ast.In) \
                        and isinstance(gflow.resolve(t.comparators[0]), ast.Call) and callee(ctx, gtc, gflow.resolve(t.comparators[0])) == 'emsarray.utils.bounds_variable_names':
                    k = 'not-a-bounds-variable'
                elif isinstance(t, ast.BoolOp):
                    continue        # the conjunction itself; its conjuncts are listed separately
                kinds.append(k)
            ctx.check('R17.5', sorted(kinds) == ['has-units', 'is-datetime', 'not-a-bounds-variable', 'units-since'],
                      "the time variable is recognised by exactly: not the bounds of another variable, units in its encoding, of the form '... since ...', decoded to datetime64 (whatever its rank or position)",
                      gtc, r, construct=f"time_coordinate returns a variable under {sorted(kinds)}")
        from . import infra as _infra2
        _infra2.bounds_excluded(ctx, 'R17.5', f"{BASE}.time_coordinate", "time coordinate discovery")
        _infra2.bounds_names_helper(ctx, 'R17.5')
        sites = []
        for f in list(p.functions.values()):
            if not f.qualname.startswith('emsarray.') or f.parent is not None:
                continue
            for t in ast.walk(f.node):
                if isinstance(t, ast.Try):
                    reads = [n for b in t.body for n in ast.walk(b) if isinstance(n, ast.Attribute) and n.attr == 'time_coordinate']
                    if reads:
                        sites.append((f, t, reads[0]))
        for f, t, r in sites:
            names = [n for h in t.handlers for n in _exc_names(h)]
            ok = any(n in anc for n in names)
            ctx.check('R17.5', ok, "the handler around a time_coordinate read names an ancestor of NoSuchCoordinateError", f, t,
                      construct=f"{f.short}: except {names}")
        for w in p.implementations(base, 'to_netcdf'):
            wf = ctx.flow(w)
            cs = [c for c in calls_in(w) if callee(ctx, w, c) == f"{UTILS}.to_netcdf_with_fixes"]
            ok = (len(cs) == 1 and len(cs[0].args) == 2 and wf.canon(cs[0].args[0]) == ('attr', ('param', 'self'), 'dataset')
                  and wf.canon(cs[0].args[1]) == ('param', w.params[1]) and kwarg(cs[0], 'time_variable') is not None
                  and any(k.arg is None for k in cs[0].keywords))
            tv = kwarg(cs[0], 'time_variable') if cs else None
            alts = set(wf.alternatives(tv)) if tv is not None else set()
            ok = ok and alts == {('attr', ('param', 'self'), 'time_coordinate'), ('const', 'None')}
            ctx.check('R17.5', ok, "Convention.to_netcdf saves its own dataset with its time coordinate (or None) and the caller's options", w,
                      cs[0] if cs else w.node)



# --------------------------------------------------------------------------- checker self-test
from ..variants import V  # noqa: E402

_U = 'src/emsarray/utils.py'
_B = 'src/emsarray/conventions/_base.py'
VARIANTS = [
    V('C17', 'shoc-simple-time-under-another-name', 'src/emsarray/conventions/shoc.py', "        name = 'time'\n", "        name = 'tim'\n", 'R17.5'),
    V('C17', 'encoding-argument-looked-up-under-another-name', 'src/emsarray/utils.py', "    if kwargs.get('encoding'):\n", "    if kwargs.get('encodings'):\n", 'R17.4'),
    V('C17', 'time-bounds-taken-for-time', 'src/emsarray/conventions/_base.py', "            if name in bounds_names:\n                # The bounds of a time coordinate are decoded like the coordinate\n                continue\n", "", 'R17.5'),
    V('C17', 'bounds-names-from-data-vars', 'src/emsarray/utils.py', "        for variable in dataset.variables.values()\n        if 'bounds' in variable.attrs", "        for variable in dataset.data_vars.values()\n        if 'bounds' in variable.attrs", 'R17.5'),
    V('C17', 'abs-removed', _U, "divmod(abs(int(offset_total)), 60)", "divmod(int(offset_total), 60)", 'R17.1'),
    V('C17', 'encoding-argument-drops-the-marker', _U, "                {'_FillValue': None, **encoding}\n", "                encoding\n", 'R17.4'),
    V('C17', 'marker-overrides-callers-fill-value', _U, "                {'_FillValue': None, **encoding}\n", "                {**encoding, '_FillValue': None}\n", 'R17.4'),
    V('C17', 'one-digit-offset-not-padded', _U, "    date_string = re.sub(\n        r'(:\\d{1,2}(?:\\.\\d+)?\\s*[+-])(\\d)(?=(:\\d\\d)?$)', r'\\g<1>0\\2', date_string.strip())\n", "    date_string = date_string.strip()\n", 'R17.1'),
    V('C17', 'padding-only-after-blank', _U, "r'(:\\d{1,2}(?:\\.\\d+)?\\s*[+-])(\\d)(?=(:\\d\\d)?$)'", "r'(:\\d{1,2}(?:\\.\\d+)?\\s+[+-])(\\d)(?=(:\\d\\d)?$)'", 'R17.1'),
    V('C17', 'reference-from-unpadded-units', _U, "    units = f'{period} since {date_string}'\n", "", ('R17.2', 'R17.3')),
    V('C17', 'calendar-attribute-required', _U, "        if 'calendar' in variable.ncattrs():\n            calendar = cast(str, variable.getncattr('calendar'))\n        else:\n            calendar = DEFAULT_CALENDAR\n", "        calendar = cast(str, variable.getncattr('calendar') or DEFAULT_CALENDAR)\n", 'R17.6'),
    V('C17', 'hours-variable-width', _U, "f'{offset_sign}{offset_hours:02d}:{offset_minutes:02d}'", "f'{offset_sign}{offset_hours:d}:{offset_minutes:02d}'", 'R17.2'),
    V('C17', 'sign-from-hours', _U, "f'{offset_sign}{offset_hours:02d}:{offset_minutes:02d}'", "f'{offset_hours:+03d}:{offset_minutes:02d}'", 'R17.2'),
    V('C17', 'sign-inverted', _U, "offset_sign = '-' if offset_total < 0 else '+'", "offset_sign = '-' if offset_total > 0 else '+'", 'R17.2'),
    V('C17', 'epoch-not-shifted', _U, "    offset_datetime = reference_datetime.replace(tzinfo=pytz.UTC).astimezone(tzinfo)", "    offset_datetime = reference_datetime.replace(tzinfo=pytz.UTC)", 'R17.2'),
    V('C17', 'epoch-T-separator', _U, "{offset_datetime:%m-%d %H:%M:%S}", "{offset_datetime:%m-%dT%H:%M:%S}", 'R17.2'),
    V('C17', 'year-by-strftime', _U, "{offset_datetime.year:04d}-{offset_datetime:%m-%d %H:%M:%S}", "{offset_datetime:%Y-%m-%d %H:%M:%S}", 'R17.2'),
    V('C17', 'year-of-unshifted-epoch', _U, "{offset_datetime.year:04d}-{offset_datetime:%m-%d %H:%M:%S}", "{reference_datetime.year:04d}-{offset_datetime:%m-%d %H:%M:%S}", 'R17.2'),
    V('C17', 'reparse-check-removed', _U, "    if cftime.num2pydate(0, new_units, calendar) != reference_datetime:\n        raise ValueError(\n            \"New units does not resolve to the same reference time! \"\n            f\"Existing: {units!r}, new: {new_units!r}\"\n        )\n", "", 'R17.3'),
    V('C17', 'fill-after-write', _U, "    dataset.to_netcdf(path, **kwargs)\n    if time_variable is not None:", "    dataset.to_netcdf(path, **kwargs)\n    disable_default_fill_value(dataset)\n    if time_variable is not None:", 'R17.4'),
    V('C17', 'no-copy', _U, "    dataset = dataset.copy(deep=False)\n", "", 'R17.4'),
    V('C17', 'fill-overrides-attrs', _U, "            and \"_FillValue\" not in variable.attrs\n", "", 'R17.4'),
    V('C17', 'fill-only-floats', _U, "            current_dtype == promoted_dtype\n", "            numpy.issubdtype(current_dtype, numpy.floating)\n", 'R17.4'),
    V('C17', 'time-fix-before-write', _U, "    dataset.to_netcdf(path, **kwargs)\n    if time_variable is not None:\n        fix_time_units_for_ems(path, data_array_to_name(dataset, time_variable))", "    if time_variable is not None:\n        fix_time_units_for_ems(path, data_array_to_name(dataset, time_variable))\n    dataset.to_netcdf(path, **kwargs)", 'R17.4'),
    V('C17', 'handler-narrowed', _B, "        try:\n            time_variable = self.time_coordinate\n        except KeyError:", "        try:\n            time_variable = self.time_coordinate\n        except ValueError:", 'R17.5'),
    V('C17', 'shoc-raises-keyerror', 'src/emsarray/conventions/shoc.py', "            raise NoSuchCoordinateError(\n                f\"SHOC dataset did not have expected time coordinate {name!r}\")\n        return self.dataset[name]\n\n    def drop_geometry", "            raise ValueError(\n                f\"SHOC dataset did not have expected time coordinate {name!r}\")\n        return self.dataset[name]\n\n    def drop_geometry", 'R17.5'),
    V('C17', 'shoc-simple-phantom-time', 'src/emsarray/conventions/shoc.py', "        name = 'time'\n        # `dataset[name]` would make up a variable for a dimension of that name\n        if name not in self.dataset.variables:\n            raise NoSuchCoordinateError(\n                f\"SHOC dataset did not have expected time coordinate {name!r}\")\n        return self.dataset[name]", "        name = 'time'\n        try:\n            return self.dataset[name]\n        except KeyError:\n            raise NoSuchCoordinateError(\n                f\"SHOC dataset did not have expected time coordinate {name!r}\")", 'R17.6'),
]
