"""C15 - geometry export round-trips every cell with its indexes."""
from __future__ import annotations

import ast
import glob
from typing import Optional

from ..model import const_value, dotted, kwarg, norm_text, walk_no_nested
from ..pattern import Matcher
from ..report import Context
from .common import arg_or_kw, calls_in, callee, enclosing_ifs, is_none, method_calls

GEO = 'emsarray.operations.geometry'


def _library_default(pattern: str, func: Optional[str], name: str):
    """Read a default (module constant or keyword default) from an installed package's source."""
    for path in sorted(glob.glob(pattern)):
        try:
            tree = ast.parse(open(path).read())
        except Exception:
            continue
        for node in ast.walk(tree):
            if func is None and isinstance(node, ast.Assign) and any(isinstance(t, ast.Name) and t.id == name for t in node.targets):
                return const_value(node.value, None), path
            if func is not None and isinstance(node, ast.FunctionDef) and node.name == func:
                a = node.args
                pos = a.posonlyargs + a.args
                defaults = [None] * (len(pos) - len(a.defaults)) + list(a.defaults)
                for arg, d in list(zip(pos, defaults)) + list(zip(a.kwonlyargs, a.kw_defaults)):
                    if arg.arg == name and d is not None:
                        return const_value(d, None), path
    return None, None


#: decimal places from which rounding a float64 is the identity: the smallest subnormal, 5e-324, has 324 of them
EXACT_PLACES = 324


def _places(fi, node) -> Optional[int]:
    """Integer value of a precision argument: a literal, or a module level constant of the function's module."""
    if node is None:
        return None
    if isinstance(node, ast.Name) and node.id in fi.module.assigns:
        node = fi.module.assigns[node.id]
    v = const_value(node, None)
    return v if isinstance(v, int) and not isinstance(v, bool) else None


#: characters of a dbf field name
DBF_NAME_LENGTH = 10


def _is_loop_polygon(ctx, fi, geom, poly_var) -> bool:
    if isinstance(geom, ast.Name):
        return geom.id == poly_var
    if isinstance(geom, ast.Call) and (callee(ctx, fi, geom) or '').endswith('geojson.Polygon') and geom.args:
        for pattern in ("$p.__geo_interface__['coordinates']", "shapely.geometry.mapping($p)['coordinates']"):
            m = Matcher(ctx, fi)
            if m.match(pattern, geom.args[0]) and m.name('p') == poly_var:
                return True
    return False


def _polygon_iteration(ctx, fi, whole_ok=False):
    """Find the iteration over dataset.ems.polygons in fi.

    Returns dict(kind, node, index_var, poly_var, iter_expr, filter_ok, enumerated) or None.
    """
    flow = ctx.flow(fi)

    def classify_iter(it):
        it = flow.resolve(it)
        enumerated = False
        start_ok = True
        if isinstance(it, ast.Call) and dotted(it.func) == 'enumerate' and it.args:
            enumerated = True
            start = it.args[1] if len(it.args) > 1 else kwarg(it, 'start')
            start_ok = start is None or const_value(start, None) == 0
            it = flow.resolve(it.args[0])
        ok = isinstance(it, ast.Attribute) and it.attr == 'polygons' and isinstance(it.value, ast.Attribute) and it.value.attr == 'ems' \
            and flow.canon(it.value.value) == ('param', fi.params[0])
        return ok, enumerated, start_ok, it

    def not_none_test(t, var):
        return (isinstance(t, ast.Compare) and len(t.ops) == 1 and isinstance(t.ops[0], ast.IsNot) and is_none(t.comparators[0])
                and isinstance(t.left, ast.Name) and t.left.id == var)

    def is_none_test(t, var):
        return (isinstance(t, ast.Compare) and len(t.ops) == 1 and isinstance(t.ops[0], ast.Is) and is_none(t.comparators[0])
                and isinstance(t.left, ast.Name) and t.left.id == var)

    # the cells that have a polygon, by the convention's own mask (mask[n] = polygons[n] is not None: R02.5 / R06.10):
    # `for i in numpy.flatnonzero(dataset.ems.mask): polygon = polygons[i]`, or `polygons[mask]` taken as a whole
    def ems_member(e, member) -> bool:
        v = flow.resolve(e)
        from .common import expand_locals as _xl15
        try:
            v = _xl15(flow, v)
        except Exception:
            pass
        return norm_text(v) == f"{fi.params[0]}.ems.{member}"

    for node in ast.walk(fi.node):
        if isinstance(node, ast.For) and isinstance(node.target, ast.Name):
            itx = flow.resolve(node.iter)
            while isinstance(itx, ast.Call) and ((isinstance(itx.func, ast.Attribute) and itx.func.attr == 'tolist' and not itx.args) or (dotted(itx.func) in ('list', 'tuple') and len(itx.args) == 1)):
                itx = flow.resolve(itx.func.value if isinstance(itx.func, ast.Attribute) else itx.args[0])
            if isinstance(itx, ast.Call) and (callee(ctx, fi, itx) or '') == 'numpy.flatnonzero' and len(itx.args) == 1 and ems_member(itx.args[0], 'mask'):
                picks = [st for st in node.body if isinstance(st, ast.Assign) and len(st.targets) == 1 and isinstance(st.targets[0], ast.Name)
                         and isinstance(st.value, ast.Subscript) and norm_text(st.value.slice) == node.target.id and ems_member(st.value.value, 'polygons')]
                breaks = [n for n in ast.walk(node) if isinstance(n, (ast.Break, ast.Return, ast.Continue))]
                if len(picks) == 1 and not breaks:
                    return dict(kind='for', node=node, index_var=node.target.id, poly_var=picks[0].targets[0].id, iter_ok=True, filter_ok=True,
                                enumerated=True, elt=None, iter_text=norm_text(node.iter), filter_text=['positions where dataset.ems.mask is set'])
        # (only where no position is attached to the entries: a compacted copy has other positions than the cells)
        if whole_ok and isinstance(node, ast.Subscript) and isinstance(node.ctx, ast.Load) and ems_member(node.value, 'polygons') and ems_member(node.slice, 'mask'):
            return dict(kind='masked', node=node, index_var=None, poly_var=None, iter_ok=True, filter_ok=True, enumerated=False, elt=None,
                        iter_text=norm_text(node), filter_text=['entries where dataset.ems.mask is set'])
    for node in ast.walk(fi.node):
        if isinstance(node, (ast.GeneratorExp, ast.ListComp)) and len(node.generators) == 1:
            g = node.generators[0]
            ok, enumerated, start_ok, it = classify_iter(g.iter)
            if not ok and 'polygons' not in norm_text(g.iter):
                continue
            tgt = g.target
            ivar = pvar = None
            if enumerated and isinstance(tgt, ast.Tuple) and len(tgt.elts) == 2:
                ivar, pvar = tgt.elts[0].id, tgt.elts[1].id
            elif isinstance(tgt, ast.Name):
                pvar = tgt.id
            filt = len(g.ifs) == 1 and pvar is not None and not_none_test(g.ifs[0], pvar)
            return dict(kind='comp', node=node, index_var=ivar, poly_var=pvar, iter_ok=ok and start_ok, filter_ok=filt,
                        enumerated=enumerated, elt=node.elt, iter_text=norm_text(g.iter), filter_text=[norm_text(i) for i in g.ifs])
        if isinstance(node, ast.For):
            ok, enumerated, start_ok, it = classify_iter(node.iter)
            if not ok and 'polygons' not in norm_text(node.iter):
                continue
            tgt = node.target
            ivar = pvar = None
            if enumerated and isinstance(tgt, ast.Tuple) and len(tgt.elts) == 2:
                ivar, pvar = tgt.elts[0].id, tgt.elts[1].id
            elif isinstance(tgt, ast.Name):
                pvar = tgt.id
            # the filter of a loop is what holds on the path to its effects (the calls on the writer): exactly
            # "this polygon is not None", whichever way it is spelt (guard + continue, or an enclosing if)
            from .common import positive_conditions as _pc
            effects = [c for c in ast.walk(node) if isinstance(c, ast.Call) and isinstance(c.func, ast.Attribute) and c.func.attr in ('record', 'shape', 'append', 'add')]
            want = [(f"{pvar} is None", False)] if pvar is not None else None
            within = []
            for c in effects:
                gs = []
                for t, pol in _pc(fi, c):
                    if isinstance(t, ast.BoolOp) or not any(x is t or x is getattr(t, 'left', None) for x in ast.walk(node)):
                        continue
                    gs.append((norm_text(t), pol))
                within.append(gs)
            filt = bool(effects) and want is not None and all(gs == want for gs in within)
            breaks = [n for n in ast.walk(node) if isinstance(n, (ast.Break, ast.Return))]
            return dict(kind='for', node=node, index_var=ivar, poly_var=pvar, iter_ok=ok and start_ok, filter_ok=filt and not breaks,
                        enumerated=enumerated, elt=None, iter_text=norm_text(node.iter),
                        filter_text=sorted({str(g) for gs in within for g in gs}))
    return None


def run(ctx: Context) -> None:
    p = ctx.p
    ctx.rule('R15.1', "every writer iterates dataset.ems.polygons in order (not a compacted copy) and skips exactly the entries that are None", floor=6)
    ctx.rule('R15.2', "the recorded linear index and the wind_index argument are the loop's own enumerate index; the feature's geometry is the loop's polygon; one record and one shape per polygon", floor=6)
    ctx.rule('R15.3', "serialisers that round coordinates by default are given an explicit precision", floor=2)
    ctx.rule('R15.4', "WKT/WKB writers serialise the multipolygon of all cells and write it to the caller's path; GeoJSON is dumped from to_geojson(dataset)", floor=4)
    ctx.rule('R15.5', "the export command opens the dataset as the library does and dispatches to the library writer of the requested or guessed format (shared with C20 R20.4/R20.5)", floor=4)
    ctx.rule('R15.6', "the polygon exported at position n is cell n's own polygon: polygon order equals index order, holes keep their slot, stored bounds are only accepted in the grid's dimension order (facts shared with C02 R02.2 / R02.3 / R02.5; the bounds guards of C06 arrive through the geometry foundation R15.7)", floor=20)
    from . import c02 as _c02
    from .common import share_obligations as _share
    _share(ctx, _c02, {'R02.2', 'R02.3', 'R02.5', 'R02.6'}, 'R15.6')
    from .common import adopt_foundations as _adopt
    _adopt(ctx, 'R15.7', ['geometry', 'order'], floor=60)
    ctx.assume("geojson, pyshp and shapely serialisers keep feature order; files are not read back (no execution)")

    tg = ctx.func(f"{GEO}.to_geojson")
    ws = ctx.func(f"{GEO}.write_shapefile")
    mp = ctx.func(f"{GEO}._to_multipolygon")
    for fi in (tg, ws, mp):
        it = _polygon_iteration(ctx, fi, whole_ok=fi is mp)
        ctx.need('R15.1', it is not None, f"{fi.short} iterates the dataset's polygons", fi)
        ctx.check('R15.1', it['iter_ok'], "the iteration runs over dataset.ems.polygons itself, from position 0", fi, it['node'],
                  construct=f"{fi.short}: iterates {it['iter_text']}")
        ctx.check('R15.1', it['filter_ok'], "exactly the None entries are skipped", fi, it['node'],
                  construct=f"{fi.short}: filter {it['filter_text']}")
        flow = ctx.flow(fi)
        if fi is tg:
            ctx.need('R15.2', it['enumerated'] and it['index_var'] is not None, "to_geojson enumerates the polygons", fi)
            feat = it['elt']
            ok_feat = isinstance(feat, ast.Call) and (callee(ctx, fi, feat) or '').endswith('geojson.Feature')
            ctx.need('R15.2', ok_feat, "each polygon becomes a geojson.Feature", fi)
            geom = kwarg(feat, 'geometry')
            props = kwarg(feat, 'properties')
            ctx.check('R15.2', _is_loop_polygon(ctx, fi, geom, it['poly_var']), "the feature geometry is the loop's polygon (itself, or a geojson.Polygon of its own geo interface coordinates)", fi, feat,
                      construct=f"geometry={norm_text(geom) if geom is not None else '?'}")
            ok_li = ok_ix = False
            if isinstance(props, ast.Dict):
                d = {const_value(k, None): v for k, v in zip(props.keys, props.values)}
                li, ix = d.get('linear_index'), d.get('index')
                ok_li = isinstance(li, ast.Name) and li.id == it['index_var']
                ok_ix = (isinstance(ix, ast.Call) and isinstance(ix.func, ast.Attribute) and ix.func.attr == 'wind_index'
                         and len(ix.args) == 1 and not ix.keywords and isinstance(ix.args[0], ast.Name) and ix.args[0].id == it['index_var']
                         and norm_text(ix.func.value) == f"{fi.params[0]}.ems")
            ctx.check('R15.2', ok_li, "linear_index is the enumerate position in the full polygon array", fi, feat,
                      construct=f"linear_index={norm_text(d.get('linear_index')) if isinstance(props, ast.Dict) and d.get('linear_index') is not None else '?'}")
            ctx.check('R15.2', ok_ix, "index is dataset.ems.wind_index(<that same position>)", fi, feat,
                      construct=f"index={norm_text(d.get('index')) if isinstance(props, ast.Dict) and d.get('index') is not None else '?'}")
            # the collection streams that generator
            rets = fi.returns()
            ok_fc = False
            for r in rets:
                v = flow.resolve(r.value)
                if isinstance(v, ast.Call) and (callee(ctx, fi, v) or '').endswith('geojson.FeatureCollection') and v.args:
                    inner = v.args[0]
                    while isinstance(inner, ast.Call) and inner.args:
                        inner = inner.args[0]
                    ok_fc = inner is it['node']
            ctx.check('R15.2', ok_fc, "the FeatureCollection is built from exactly that sequence of features", fi, rets[0] if rets else fi.node)
            # R15.3 geojson precision
            default, where = _library_default('/venv/lib/python3*/site-packages/geojson/geometry.py', None, 'DEFAULT_PRECISION')
            prec = kwarg(feat, 'precision')
            geom_src = flow.resolve(geom) if geom is not None else None
            if prec is None and isinstance(geom_src, ast.Call):
                prec = kwarg(geom_src, 'precision')
            pv = _places(fi, prec)
            rounds = default is None or (isinstance(default, int) and default < EXACT_PLACES)
            ctx.check('R15.3', (pv is not None and pv >= EXACT_PLACES) or not rounds,
                      f"geojson geometries are built with precision >= {EXACT_PLACES} decimal places (round() leaves every float64 unchanged from there; the library default rounds)", fi, feat,
                      construct=f"geojson geometry precision={norm_text(prec) if prec is not None else 'default'} (= {pv}); library DEFAULT_PRECISION={default}",
                      detail=f"default read from {where}" if where else 'library source not found: documented default 6 assumed')
        if fi is ws:
            ctx.need('R15.2', it['enumerated'] and it['index_var'] is not None, "write_shapefile enumerates the polygons", fi)
            loop = it['node']
            recs = [c for c in ast.walk(loop) if isinstance(c, ast.Call) and isinstance(c.func, ast.Attribute) and c.func.attr == 'record']
            shps = [c for c in ast.walk(loop) if isinstance(c, ast.Call) and isinstance(c.func, ast.Attribute) and c.func.attr == 'shape']
            from .common import guards as _guards
            ok_pair = (len(recs) == 1 and len(shps) == 1 and flow.canon(recs[0].func.value) == flow.canon(shps[0].func.value)
                       and _guards(fi, recs[0]) == _guards(fi, shps[0]) and it['filter_ok'])
            ctx.check('R15.2', ok_pair, "each polygon produces exactly one record and one shape on the same writer, unconditionally", fi, loop,
                      construct=f"per polygon: {len(recs)} record(), {len(shps)} shape()")
            fields = [const_value(c.args[0], None) for c in method_calls(fi, 'field') if c.args]
            if recs:
                # a dbf field name holds ten characters: the writer truncates longer names when the field is declared,
                # so a record keyword spelt in full matches no field and the value is dropped
                lost = [k.arg for k in recs[0].keywords if k.arg is not None and (len(k.arg) > DBF_NAME_LENGTH or k.arg not in fields)]
                ctx.check('R15.2', not lost and not any(k.arg is None for k in recs[0].keywords) and len(recs[0].args) + len(recs[0].keywords) == len(fields),
                          f"every record value reaches a declared field: positional values in field order, keywords only for names of at most {DBF_NAME_LENGTH} characters", fi, recs[0],
                          construct=f"fields {fields}; record({len(recs[0].args)} positional, keywords {[k.arg for k in recs[0].keywords]}); unmatched {lost or 'none'}")

                def value_of(name):
                    v = kwarg(recs[0], name)
                    if v is None and name in fields and fields.index(name) < len(recs[0].args) and not any(isinstance(a, ast.Starred) for a in recs[0].args):
                        v = recs[0].args[fields.index(name)]
                    return v
                from .common import expand_locals as _x15
                fl15 = ctx.flow(fi)
                li = value_of('linear_index')
                ix = value_of('index')
                # (a local that only renames the position or keeps the native index is spelled out)
                li = _x15(fl15, li, keep=[it['index_var']]) if li is not None else None
                ix = _x15(fl15, ix, keep=[it['index_var']]) if ix is not None else None
                ok_li = isinstance(li, ast.Name) and li.id == it['index_var']
                ixv = ix
                if isinstance(ixv, ast.Call) and (dotted(ixv.func) or '') == 'json.dumps' and ixv.args:
                    ixv = ixv.args[0]
                ok_ix = (isinstance(ixv, ast.Call) and isinstance(ixv.func, ast.Attribute) and ixv.func.attr == 'wind_index' and len(ixv.args) == 1
                         and not ixv.keywords and isinstance(ixv.args[0], ast.Name) and ixv.args[0].id == it['index_var']
                         and norm_text(ixv.func.value) == f"{fi.params[0]}.ems")
                ctx.check('R15.2', ok_li and ok_ix, "the record carries linear_index = position and index = wind_index(position)", fi, recs[0])
            if shps:
                a = shps[0].args[0] if shps[0].args else None
                ok_shape = isinstance(a, ast.Attribute) and a.attr == '__geo_interface__' and isinstance(a.value, ast.Name) and a.value.id == it['poly_var']
                ctx.check('R15.2', ok_shape, "the shape written is the loop's polygon (full precision geo interface)", fi, shps[0])
            default_size, where = _library_default('/venv/lib/python3*/site-packages/shapefile.py', 'field', 'size')
            try:
                default_size = int(default_size)
            except (TypeError, ValueError):
                default_size = 50
            narrow = []
            for c in method_calls(fi, 'field'):
                sz = kwarg(c, 'size') or (c.args[2] if len(c.args) > 2 else None)
                if sz is not None:
                    v = const_value(sz, None)
                    if not isinstance(v, int) or v < default_size:
                        narrow.append(norm_text(c))
            ctx.check('R15.2', not narrow, "attribute fields are not narrower than the library default, so a serialised index is never truncated", fi,
                      fi.node, construct=f"explicitly narrowed dbf fields (default width {default_size}): {narrow or 'none'}")
            ctx.check('R15.2', {'linear_index', 'index'} <= set(fields), "the attribute table has linear_index and index fields", fi, fi.node,
                      construct=f"fields {fields}")
        if fi is mp:
            elt_ok = (it['kind'] == 'comp' and isinstance(it['elt'], ast.Name) and it['elt'].id == it['poly_var']) or it['kind'] == 'masked'
            rets = fi.returns()
            made = flow.resolve(rets[0].value) if rets else None
            src_ = flow.resolve(made.args[0]) if isinstance(made, ast.Call) and made.args else None
            while it['kind'] == 'masked' and isinstance(src_, ast.Call) and ((isinstance(src_.func, ast.Attribute) and src_.func.attr == 'tolist' and not src_.args)
                                                                             or (dotted(src_.func) in ('list', 'tuple') and len(src_.args) == 1)):
                src_ = flow.resolve(src_.func.value if isinstance(src_.func, ast.Attribute) else src_.args[0])
            ok = elt_ok and rets and isinstance(made, ast.Call) and (callee(ctx, fi, made) or '').endswith('MultiPolygon') and src_ is it['node']
            ctx.check('R15.4', bool(ok), "_to_multipolygon is the MultiPolygon of the cells, in order", fi, rets[0] if rets else fi.node)

    # writers
    ww = ctx.func(f"{GEO}.write_wkt")
    wb = ctx.func(f"{GEO}.write_wkb")
    wg = ctx.func(f"{GEO}.write_geojson")
    for fi, ser, mode in ((ww, 'to_wkt', 'w'), (wb, 'to_wkb', 'wb')):
        flow = ctx.flow(fi)
        sers = [c for c in calls_in(fi) if (callee(ctx, fi, c) or '').endswith(f"shapely.{ser}")]
        ctx.need('R15.4', len(sers) == 1, f"{fi.short} serialises with shapely.{ser}", fi)
        s = sers[0]
        arg = flow.resolve(s.args[0]) if s.args else None
        ok_arg = isinstance(arg, ast.Call) and callee(ctx, fi, arg) == f"{GEO}._to_multipolygon" and len(arg.args) == 1 \
            and flow.canon(arg.args[0]) == ('param', fi.params[0])
        opens = [c for c in calls_in(fi) if dotted(c.func) == 'open']
        omode = arg_or_kw(opens[0], 1, 'mode') if len(opens) == 1 else None
        ofile = arg_or_kw(opens[0], 0, 'file') if len(opens) == 1 else None
        ok_open = len(opens) == 1 and ofile is not None and flow.canon(ofile) == ('param', fi.params[1]) and omode is not None and const_value(omode, None) == mode
        wr = [c for c in method_calls(fi, 'write')]
        ok_wr = len(wr) == 1 and wr[0].args and flow.resolve(wr[0].args[0]) is s
        ctx.check('R15.4', ok_arg and ok_open and ok_wr, f"the multipolygon of this dataset is serialised and written to the caller's path ({mode!r})", fi, s)
        if ser == 'to_wkt':
            default, where = _library_default('/venv/lib/python3*/site-packages/shapely/io.py', 'to_wkt', 'rounding_precision')
            rp = kwarg(s, 'rounding_precision')
            if rp is None and len(s.args) > 1:
                rp = s.args[1]
            rounds = default is None or (isinstance(default, int) and default < EXACT_PLACES)
            rpv = _places(fi, rp)
            ctx.check('R15.3', (rpv is not None and rpv >= EXACT_PLACES) or not rounds,
                      f"shapely.to_wkt is given rounding_precision >= {EXACT_PLACES}: GEOS writes the shortest exact decimal form rounded to that many places, and -1 ('full') still means 16 places", fi, s,
                      construct=f"shapely.to_wkt(...) rounding_precision={norm_text(rp) if rp is not None else 'default'} (= {rpv}); library default={default}",
                      detail=f"default read from {where}" if where else 'library source not found: documented default 6 assumed')
        else:
            extra = [k.arg for k in s.keywords]
            ctx.check('R15.3', not extra or all(k in ('hex', 'byte_order', 'flavor', 'include_srid', 'output_dimension') for k in extra),
                      "WKB stores IEEE doubles (lossless); no lossy option is passed", fi, s, construct=f"shapely.to_wkb options {extra}")
    flow = ctx.flow(wg)
    dumps = [c for c in calls_in(wg) if callee(ctx, wg, c) in ('json.dump', 'geojson.dump')]
    ok = False
    if len(dumps) == 1:
        a0 = arg_or_kw(dumps[0], 0, 'obj')
        a = flow.resolve(a0) if a0 is not None else None
        ok = isinstance(a, ast.Call) and callee(ctx, wg, a) == f"{GEO}.to_geojson" and bool(a.args) and flow.canon(a.args[0]) == ('param', wg.params[0])
        opens = [c for c in calls_in(wg) if dotted(c.func) == 'open']
        ofile = arg_or_kw(opens[0], 0, 'file') if len(opens) == 1 else None
        ok = ok and ofile is not None and flow.canon(ofile) == ('param', wg.params[1])
    ctx.check('R15.4', ok, "write_geojson dumps to_geojson(dataset) to the caller's path", wg, dumps[0] if dumps else wg.node)
    from . import c20
    from .common import share_obligations
    share_obligations(ctx, c20, {'R20.5', 'R20.4'}, 'R15.5', only=lambda ob: 'export_geometry' in ob.function or 'export-geometry' in ob.text or 'format' in ob.text)
    di = p.cls(f"{GEO}._dumpable_iterator")
    it_fi = di.methods.get('__iter__')
    ok = it_fi is not None and any(norm_text(r.value) == 'iter(self.gen)' for r in it_fi.returns())
    ctx.check('R15.4', ok, "the streaming list wrapper yields the generator's items unchanged", it_fi or wg, (it_fi or wg).node,
              construct='_dumpable_iterator.__iter__ -> iter(self.gen)')

    # the shapefile is written where the caller said: the writer gets the target as given (a Path made a string), and the caller's handles
    # under their own keywords.  pyshp takes the extension off a target itself: a target that was split before loses a second piece of its name
    # (`cells.v2.shp` written as `cells.shp`) while the .prj file, named here, keeps it
    wsf = ctx.func(f"{GEO}.write_shapefile")
    wflow = ctx.flow(wsf)
    writers_ = [c for c in calls_in(wsf) if (callee(ctx, wsf, c) or '').endswith('shapefile.Writer')]
    ctx.need('R15.4', len(writers_) == 1, "write_shapefile opens one shapefile.Writer", wsf)
    tgt_ = writers_[0].args[0] if writers_[0].args else kwarg(writers_[0], 'target')

    def _is_target(e, depth=0):
        if e is None or depth > 3:
            return False
        alts = wflow.alternatives(e) if isinstance(e, ast.Name) else [wflow.canon(e)]
        if isinstance(e, ast.Name):
            ok_all = True
            for d in wflow.defs_of(e):
                if d.kind == 'param':
                    ok_all = ok_all and d.name == 'target'
                elif d.kind == 'assign' and d.value is not None:
                    ok_all = ok_all and _is_target(d.value, depth + 1)
                else:
                    ok_all = False
            return ok_all and bool(wflow.defs_of(e))
        if isinstance(e, ast.Call) and len(e.args) == 1 and not e.keywords and (dotted(e.func) in ('str', 'os.fspath', 'os.fsdecode')):
            return _is_target(e.args[0], depth + 1)
        if isinstance(e, ast.IfExp):
            return _is_target(e.body, depth + 1) and _is_target(e.orelse, depth + 1)
        return False
    ctx.check('R15.4', _is_target(tgt_), "the shapefile writer is given the caller's target as it is (at most converted from a Path to a string): pyshp names the components after it",
              wsf, writers_[0], construct=f"shapefile.Writer({norm_text(tgt_) if tgt_ is not None else '?'}, ...) <- {[str(a)[:40] for a in (wflow.alternatives(tgt_) if isinstance(tgt_, ast.Name) else [])][:3]}")
    for key_ in ('shp', 'shx', 'dbf'):
        v_ = kwarg(writers_[0], key_)
        ctx.check('R15.4', v_ is not None and set(wflow.alternatives(v_)) == {('param', key_)}, f"the caller's `{key_}` handle or path goes to the writer's `{key_}`", wsf, writers_[0],
                  construct=f"{key_}={norm_text(v_) if v_ is not None else 'not passed'}")

    # the projection file is named after the target where there is one and the caller named none
    from . import infra as _infra154
    _infra154.none_default_discipline(ctx, 'R15.4', [f"{GEO}.write_shapefile"])

    # an opened handle handed to write_shapefile is used as it is (typing.IO is an annotation, not a class real files derive from)
    mo = p.functions.get(f"{GEO}._maybe_open")
    ctx.need('R15.4', mo is not None and mo.params, "_maybe_open exists", wg)
    handle = mo.params[0]
    from .common import path_conditions
    moflow = ctx.flow(mo)
    passthrough, conds = [], []
    for y in ast.walk(mo.node):
        if not (isinstance(y, ast.Yield) and isinstance(y.value, ast.Name)):
            continue
        if y.value.id == handle:
            passthrough.append(y)
            conds += path_conditions(mo, y)
            continue
        # `with (nullcontext(handle) if <test> else open(handle, mode)) as f: yield f`: the handle goes through on one arm
        for w in ast.walk(mo.node):
            if isinstance(w, ast.With) and any(x is y for x in ast.walk(w)):
                for item in w.items:
                    if isinstance(item.optional_vars, ast.Name) and item.optional_vars.id == y.value.id:
                        cm = moflow.resolve(item.context_expr)
                        if isinstance(cm, ast.IfExp):
                            for arm, pol in ((cm.body, True), (cm.orelse, False)):
                                if isinstance(arm, ast.Call) and (mo.module.resolve(dotted(arm.func) or '?') or '').endswith('nullcontext') and len(arm.args) == 1 \
                                        and isinstance(arm.args[0], ast.Name) and arm.args[0].id == handle:
                                    passthrough.append(y)
                                    conds += [(cm.test, pol)] + list(path_conditions(mo, w))
    ctx.need('R15.4', len(passthrough) == 1, "_maybe_open yields a given handle as it is on one path", mo)
    ok = False
    why = 'no test'
    for test, pol in conds:
        if not pol:
            continue
        if isinstance(test, ast.Call) and isinstance(test.func, ast.Name) and test.func.id == 'hasattr' and len(test.args) == 2 \
                and isinstance(test.args[0], ast.Name) and test.args[0].id == handle and const_value(test.args[1], None) in ('write', 'read'):
            ok, why = True, norm_text(test)
        elif isinstance(test, ast.Call) and isinstance(test.func, ast.Name) and test.func.id == 'isinstance' and len(test.args) == 2:
            classes = test.args[1].elts if isinstance(test.args[1], ast.Tuple) else [test.args[1]]
            quals = [mo.module.resolve(dotted(c) or '?') for c in classes]
            # no class will do: typing.IO is an annotation, and the io base classes leave out the wrappers that only behave like
            # files (tempfile.NamedTemporaryFile, codecs stream writers), which pyshp itself accepts
            why = f"isinstance against {quals}"
    ctx.check('R15.4', ok, "the test that recognises an opened file is true for everything that can be written to (a write/read attribute; isinstance(x, typing.IO) never is, "
              "and the io base classes leave out file-like wrappers such as tempfile.NamedTemporaryFile)", mo, passthrough[0],
              construct=f"handle test: {why}")


# --------------------------------------------------------------------------- checker self-test
from ..variants import V  # noqa: E402

_G = 'src/emsarray/operations/geometry.py'
VARIANTS = [
    V('C15', 'given-projection-path-overwritten', 'src/emsarray/operations/geometry.py', "        if prj is None:\n            if target is not None:", "        if prj is not None:\n            if target is not None:", 'R15.4'),
    V('C15', 'projection-file-named-after-no-target', 'src/emsarray/operations/geometry.py', "            if target is not None:\n                prj = os.path.splitext(target)[0] + '.prj'", "            if target is None:\n                prj = os.path.splitext(target)[0] + '.prj'", 'R15.4'),
    V('C15', 'geojson-wind-off-by-one', _G, "            'index': dataset.ems.wind_index(i),\n        })", "            'index': dataset.ems.wind_index(i + 1),\n        })", 'R15.2'),
    V('C15', 'geojson-compacted', _G, "        for i, polygon in enumerate(dataset.ems.polygons)\n        if polygon is not None\n    ))", "        for i, polygon in enumerate(dataset.ems.polygons[dataset.ems.mask])\n        if polygon is not None\n    ))", 'R15.1'),
    V('C15', 'geojson-start-1', _G, "        for i, polygon in enumerate(dataset.ems.polygons)\n        if polygon is not None\n    ))", "        for i, polygon in enumerate(dataset.ems.polygons, 1)\n        if polygon is not None\n    ))", 'R15.1'),
    V('C15', 'shapefile-filter-validity', _G, "            if polygon is None:\n                continue\n", "            if polygon is None or polygon.area == 0:\n                continue\n", 'R15.1'),
    V('C15', 'shapefile-linear-index-shifted', _G, "                i,\n                json.dumps(", "                i + 1,\n                json.dumps(", 'R15.2'),
    V('C15', 'shapefile-record-long-keyword', _G, "                f'polygon{i}',\n                i,\n                json.dumps(dataset.ems.wind_index(i)),\n", "                name=f'polygon{i}',\n                linear_index=i,\n                index=json.dumps(dataset.ems.wind_index(i)),\n", 'R15.2'),
    V('C15', 'shapefile-record-order-swapped', _G, "                f'polygon{i}',\n                i,\n", "                i,\n                f'polygon{i}',\n", 'R15.2'),
    V('C15', 'geojson-other-polygon', _G, "            polygon.__geo_interface__['coordinates'], precision=FULL_PRECISION,", "            polygon.envelope.__geo_interface__['coordinates'], precision=FULL_PRECISION,", 'R15.2'),
    V('C15', 'shapefile-shape-conditional', _G, "            writer.shape(polygon.__geo_interface__)", "            if polygon.is_valid:\n                writer.shape(polygon.__geo_interface__)", 'R15.2'),
    V('C15', 'multipolygon-truthiness', _G, "        p for p in dataset.ems.polygons\n        if p is not None", "        p for p in dataset.ems.polygons\n        if p", 'R15.1'),
    V('C15', 'wkb-of-convex-hull', _G, "        f.write(shapely.to_wkb(_to_multipolygon(dataset)))", "        f.write(shapely.to_wkb(_to_multipolygon(dataset).convex_hull))", 'R15.4'),
    V('C15', 'wkt-more-rounding', _G, "            _to_multipolygon(dataset), rounding_precision=FULL_PRECISION))", "            _to_multipolygon(dataset), rounding_precision=3))", 'R15.3'),
    V('C15', 'wkt-default-rounding', _G, "            _to_multipolygon(dataset), rounding_precision=FULL_PRECISION))", "            _to_multipolygon(dataset)))", 'R15.3'),
    V('C15', 'wkt-full-is-sixteen-places', _G, "            _to_multipolygon(dataset), rounding_precision=FULL_PRECISION))", "            _to_multipolygon(dataset), rounding_precision=-1))", 'R15.3'),
    V('C15', 'geojson-default-rounding', _G, "            polygon.__geo_interface__['coordinates'], precision=FULL_PRECISION,\n", "            polygon.__geo_interface__['coordinates'],\n", 'R15.3'),
    V('C15', 'precision-constant-lowered', _G, "FULL_PRECISION = 324", "FULL_PRECISION = 15", 'R15.3'),
    V('C15', 'maybe-open-typing-io', _G, "    if hasattr(path_or_file, 'write'):", "    if isinstance(path_or_file, IO):", 'R15.4'),
    V('C15', 'dbf-fields-narrowed', _G, "        writer.field('index', 'C')", "        writer.field('index', 'C', size=16)", 'R15.2'),
    V('C15', 'cli-opens-undecoded', 'src/emsarray/cli/commands/export_geometry.py', "        dataset = emsarray.open_dataset(options.input_path)", "        dataset = emsarray.open_dataset(options.input_path, mask_and_scale=False)", 'R15.5'),
    # benign: the same precision spelt as a literal
    V('C15', 'benign-wkt-literal-precision', _G, "            _to_multipolygon(dataset), rounding_precision=FULL_PRECISION))", "            _to_multipolygon(dataset), rounding_precision=400))", None),
]
