"""C12 - ocean floor extraction: orientation / dimension agreement only."""
from __future__ import annotations

import ast

from ..model import const_value, dotted, kwarg, norm_text, walk_no_nested
from ..report import Context
from .common import arg_or_kw, calls_in, callee, enclosing_ifs, is_none, method_calls

DEPTH = 'emsarray.operations.depth'
BASE = 'emsarray.conventions._base.Convention'
UTILS = 'emsarray.utils'


def _strip_str(e):
    if isinstance(e, ast.Call) and dotted(e.func) == 'str' and len(e.args) == 1:
        return e.args[0]
    return e


def run(ctx: Context) -> None:
    p = ctx.p
    ctx.rule('R12.1', "ocean_floor normalises to shallow-to-deep first (constant deep_to_shallow=False) and every later use of the dataset is of the normalised value", floor=3)
    ctx.rule('R12.2', "the reducer agrees with that orientation: the floor is the last valid layer = argmax over the depth dimension of a cumulative count of valid layers", floor=3)
    ctx.rule('R12.3', "one depth dimension throughout: skip test, spatial dimension set, floor search, the isel that picks the floor; all variables of a group are indexed by the one floor array; the reduced group overrides the originals; depth dimensions are dropped", floor=9)
    ctx.rule('R12.4', "Convention methods that read the optional time coordinate for another purpose tolerate its absence", floor=3)
    ctx.rule('R12.5', "the normalisation ocean_floor relies on is sound: ordering is read from the copy's current values with the current sign, and a mismatch reverses the whole dataset (shared with C13 R13.3-R13.5)", floor=10)
    ctx.rule('R12.7', "the accessor finds depth and time variables among all variables of the dataset (a coordinate the file does not flag is a plain variable), and hands the reduction the time coordinate as the only non-spatial variable", floor=6)
    from . import infra as _infra
    _infra.lookup_namespace(ctx, 'R12.7', ['depth_coordinates', 'depth_coordinate', 'time_coordinate'])
    _infra.constant_name_lookups(ctx, 'R12.7', ['time_coordinate'])
    _infra.wrapper_non_spatial(ctx, 'R12.7')
    _infra.every_depth_coordinate(ctx, 'R12.7')
    _infra.depth_coordinates_only_read(ctx, 'R12.7')
    _infra.depth_markers(ctx, 'R12.7')
    _infra.shoc_depth_names(ctx, 'R12.7')
    from .common import adopt_foundations as _adopt
    _adopt(ctx, 'R12.6', ['order'], floor=60)
    ctx.rule('R12.8', "the caller's list of non-spatial variables is used as given: the empty default is substituted only where none was given", floor=0)
    with ctx.section('R12.8'):
        from . import infra as _infra128
        _infra128.none_default_discipline(ctx, 'R12.8', ['emsarray.operations.depth.ocean_floor'])
    ctx.assume("NOT decided: NaN semantics of cumsum/argmax, all-NaN columns, static sea floor across the variables of a group - run-time numerical facts")
    ctx.assume("xarray: Dataset.isel with a DataArray indexer picks per-location layers; merge(compat='override') keeps the receiver's variables")

    of = ctx.func(f"{DEPTH}.ocean_floor")
    flow = ctx.flow(of)
    cfg = ctx.cfg(of)
    ds = of.params[0]
    norm = [c for c in calls_in(of) if callee(ctx, of, c) == f"{DEPTH}.normalize_depth_variables"]
    ctx.need('R12.1', len(norm) == 1, "ocean_floor calls normalize_depth_variables once", of)
    nc = norm[0]
    d2s = kwarg(nc, 'deep_to_shallow')
    pdn = kwarg(nc, 'positive_down')
    ctx.check('R12.1', d2s is not None and const_value(d2s, None) is False, "deep_to_shallow=False: layers run from the surface down", of, nc,
              construct=f"deep_to_shallow={norm_text(d2s) if d2s is not None else 'unset'}")
    ctx.check('R12.1', pdn is not None and isinstance(const_value(pdn, None), bool),
              "the sign convention is pinned to a constant so the ordering test cannot depend on a guessed sign per call", of, nc,
              construct=f"positive_down={norm_text(pdn) if pdn is not None else 'unset'}")
    ok_args = (len(nc.args) >= 2 and flow.canon(nc.args[0]) == ('param', ds))
    # every later load of `dataset` does not see the parameter any more
    from ..cfg import stmt_of
    st_norm = stmt_of(of, nc)
    stale = []
    for n in ast.walk(of.node):
        if isinstance(n, ast.Name) and n.id == ds and isinstance(n.ctx, ast.Load):
            if any(x is n for x in ast.walk(nc)):
                continue
            if any(d.kind == 'param' for d in flow.defs_of(n)):
                stale.append(n)
    assigned = isinstance(st_norm, ast.Assign) and isinstance(st_norm.targets[0], ast.Name) and st_norm.targets[0].id == ds
    ctx.check('R12.1', ok_args and assigned and not stale, "the normalised dataset replaces the input before anything else reads it", of,
              stale[0] if stale else nc, construct='dataset = normalize_depth_variables(dataset, ...); stale uses of the input: ' + str(len(stale)))

    from . import c13
    from .common import share_obligations
    share_obligations(ctx, c13, {'R13.3', 'R13.4', 'R13.5'}, 'R12.5')
    from .common import iterable_param_obligations
    iterable_param_obligations(ctx, 'R12.1', of)

    # ---- R12.2 the reducer
    from ..pattern import Matcher
    with ctx.section('R12.2 the reducer'):
        ff = ctx.func(f"{DEPTH}._find_ocean_floor_indexes")
        fflow = ctx.flow(ff)
        da, dd = ff.params[0], ff.params[1]
        mf = Matcher(ctx, ff)
        rets = ff.returns()
        ctx.need('R12.2', len(rets) == 1, "_find_ocean_floor_indexes has one return", ff)
        am = mf.stmt('$max = $$counted.argmax($$d1)')
        # the index selects one layer per column with isel: xarray cannot do that with an array dask has not computed
        concrete = am is not None and any(mf.match(alt, rets[0], commit=False) for alt in ('return $max.compute()', 'return $max.load()'))
        ctx.check('R12.2', bool(concrete), "the floor index is computed before it is used as an indexer (a lazy dask index makes isel raise for every chunked or multi-file dataset)", ff, rets[0],
                  construct=f"returned: {norm_text(rets[0].value)[:80]}")
        ok_argmax = am is not None and (concrete or mf.match('return $max', rets[0], commit=False))
        ctx.check('R12.2', bool(ok_argmax), "the floor index is an argmax (last layer of a non-decreasing valid count)", ff, am or rets[0],
                  construct=f"reducer: {norm_text(am.value.func) if am is not None else norm_text(rets[0].value)}")
        cs_ = None
        for alt, kind in ((f"$cum = ({da} * 0 + 1).cumsum($$d2)", 'times-zero'), (f"$cum = {da}.notnull().cumsum($$d2)", 'notnull'), (f"$cum = {da}.notna().cumsum($$d2)", 'notnull')):
            cs_ = cs_ or mf.stmt(alt)
        ok_cumsum = am is not None and cs_ is not None and mf.match('$max = $cum.argmax($$d1)', am, commit=False)
        ctx.check('R12.2', bool(ok_cumsum), "argmax is taken over a cumulative sum along depth", ff, cs_ or rets[0],
                  construct=f"argmax of: {norm_text(cs_.value)[:80] if cs_ is not None else '?'}")
        ctx.check('R12.2', cs_ is not None, "what is accumulated is 1 per valid layer of the variable (missing stays missing / zero)", ff, cs_ or rets[0],
                  construct=f"accumulated: {norm_text(cs_.value.func.value) if cs_ is not None else '?'}")
        d1, d2 = mf.enodes.get('d1'), mf.enodes.get('d2')
        ok_dims = False
        if ok_cumsum and d1 is not None and d2 is not None:
            ok_dims = fflow.canon(_strip_str(fflow.resolve(d1))) == ('param', dd) and fflow.canon(_strip_str(fflow.resolve(d2))) == ('param', dd)
        ctx.check('R12.3', ok_dims, "cumsum and argmax run along the depth dimension argument", ff, rets[0],
                  construct=f"cumsum({norm_text(d2) if d2 is not None else '?'}).argmax({norm_text(d1) if d1 is not None else '?'})")

    # ---- R12.3 in ocean_floor
    with ctx.section('R12.3 in ocean_floor'):
        mo = Matcher(ctx, of)
        dcp, nsp = of.params[1], of.params[2]
        dims_st = mo.stmt(f"$ddims = utils.dimensions_from_coords({ds}, {dcp})")
        nsd_st = mo.stmt(f"$nsd = utils.dimensions_from_coords({ds}, {nsp})")
        # a coordinate without a dimension (the time of one selected record) names no dimension: dims[0] is only read when there is one
        dfc = ctx.func('emsarray.utils.dimensions_from_coords')
        from .common import guards as _g12
        from .common import expand_locals as _x12a
        firsts = [n for n in ast.walk(dfc.node) if isinstance(n, ast.Subscript) and isinstance(n.ctx, ast.Load) and const_value(n.slice, None) == 0
                  and norm_text(_x12a(ctx.flow(dfc), n.value)).endswith('.dims')]
        ok_sc = bool(firsts)
        for n in firsts:
            owner = norm_text(n.value)
            from .common import expand_locals as _x12, facts as _f12
            g = _f12(ctx, dfc, n)
            owner = norm_text(_x12(ctx.flow(dfc), n.value))
            ok_sc = ok_sc and ((f"len({owner}) == 0", False) in g or (f"len({owner}) >= 1", True) in g or (f"len({owner}) > 0", True) in g
                               or (f"len({owner}) == 1", True) in g or (owner, True) in g)
        ctx.check('R12.3', ok_sc, "dimensions_from_coords skips a scalar coordinate: after isel(time=i) the time coordinate has no dimension, and ocean_floor "
                  "(whose documentation advises slicing time first) must not fail on it", dfc, firsts[0] if firsts else dfc.node,
                  construct=f"reads of dims[0]: {[(norm_text(n), _g12(dfc, n)) for n in firsts]}"[:300])
        # the bounds variables of the depth coordinates go with them
        bnames = mo.stmt(f"$bnames = {{utils.name_to_data_array({ds}, $c).attrs.get('bounds') for $c in {dcp}}}")
        bdrop = None
        if bnames is not None:
            for alt in (f"{ds} = {ds}.drop_vars([$bn for $bn in $bnames if $bn in {ds}.variables])",
                        f"{ds} = {ds}.drop_vars([$bn for $bn in $bnames if $bn in {ds}.variables], errors='ignore')"):
                bdrop = bdrop or mo.stmt(alt)
        ctx.check('R12.3', bdrop is not None and dims_st is not None and bdrop.lineno < dims_st.lineno,
                  "the CF bounds variables of the depth coordinates are dropped before the reduction (they lie on the depth dimension but are not data on a grid)", of,
                  bdrop or bnames or of.node, construct=f"depth bounds: {norm_text(bdrop)[:110] if bdrop is not None else 'not dropped'}")
        outer = None
        if dims_st is not None:
            for alt in ('for $dd in sorted($ddims, key=$$key):\n    ...', 'for $dd in $ddims:\n    ...', 'for $dd in sorted($ddims):\n    ...'):
                outer = outer or mo.stmt(alt)
        ctx.need('R12.3', outer is not None, "ocean_floor loops over the depth dimensions of the depth coordinates given", of)
        ctx.check('R12.3', True, "the depth dimensions are those of the depth coordinates given", of, outer,
                  construct=f"for depth_dimension in {norm_text(outer.iter)}")
        grouping = mo.stmt("for $name, $var in " + ds + ".data_vars.items():\n"
                           "    if $dd not in $var.dims:\n        continue\n"
                           "    $sp = frozenset($var.dims).difference({$dd}, $nsd)\n"
                           "    if not $sp:\n        continue\n"
                           "    $groups[$sp].append($name)", within=outer) if nsd_st is not None else None
        grouped_ok = grouping is not None and mo.stmt('$groups = defaultdict(list)', within=outer) is not None
        if not grouped_ok and nsd_st is not None:
            # the same grouping in another shape: what is known where a name joins a group, and under which key
            from .common import expand_locals as _xg, facts as _fg
            oflow = ctx.flow(of)
            gl = mo.stmt("for $name, $var in " + ds + ".data_vars.items():\n    ...", within=outer)
            if gl is not None:
                name_v, var_v, dd_v, nsd_v = mo.name('name'), mo.name('var'), mo.name('dd'), mo.name('nsd')
                joins = [c for c in ast.walk(gl) if isinstance(c, ast.Call) and isinstance(c.func, ast.Attribute) and c.func.attr == 'append' and len(c.args) == 1
                         and norm_text(c.args[0]) == name_v]
                if len(joins) == 1:
                    recv = joins[0].func.value
                    key = cont = None
                    if isinstance(recv, ast.Subscript) and isinstance(recv.value, ast.Name):
                        key, cont = recv.slice, recv.value.id
                        made = mo.stmt(f"{cont} = defaultdict(list)", within=outer) or mo.stmt(f"{cont} = collections.defaultdict(list)", within=outer)
                    elif isinstance(recv, ast.Call) and isinstance(recv.func, ast.Attribute) and recv.func.attr == 'setdefault' and len(recv.args) == 2 \
                            and isinstance(recv.args[1], ast.List) and not recv.args[1].elts and isinstance(recv.func.value, ast.Name):
                        key, cont = recv.args[0], recv.func.value.id
                        made = mo.stmt(f"{cont} = {{}}", within=outer) or mo.stmt(f"{cont} = dict()", within=outer)
                    if key is not None and made is not None and made.lineno < gl.lineno:
                        keep = [name_v, var_v, dd_v, nsd_v]
                        key_t = norm_text(_xg(oflow, key, keep=keep))
                        want_key = {f"frozenset({var_v}.dims).difference({{{dd_v}}}, {nsd_v})", f"frozenset({var_v}.dims) - {{{dd_v}}} - {nsd_v}",
                                    f"frozenset({var_v}.dims) - {{{dd_v}}} - frozenset({nsd_v})", f"frozenset({var_v}.dims).difference({{{dd_v}}}).difference({nsd_v})"}
                        fs = {(key_t if t == norm_text(key) else t, pol) for t, pol in _fg(ctx, of, joins[0], expand=False)}
                        want_facts = {(f"{dd_v} in {var_v}.dims", True), (key_t, True)}
                        others = [c for c in ast.walk(gl) if isinstance(c, (ast.Break, ast.Return))]
                        if key_t in want_key and fs == want_facts and not others:
                            grouped_ok = True
                            grouping = gl
                            mo.bind['groups'] = cont
                            mo.bind['sp'] = mo.bind.get('sp', 'spatial_dimensions')
        ctx.check('R12.3', grouped_ok,
                  "variables with this depth dimension are grouped by their spatial dimension set (their dims minus this depth dimension and the non-spatial ones); the others are skipped",
                  of, grouping or outer, construct='groups[frozenset(variable.dims) - {depth dimension} - non spatial dimensions].append(name)')
        inner = mo.stmt('for $sp2, $names in $groups.items():\n    ...', within=outer) if grouping is not None else None
        ctx.need('R12.3', inner is not None, "every group of variables is reduced in turn", of)
        # the example is a variable that can show missing values: the first floating point variable of the group
        pick_ex = mo.stmt(f"$exname = next(($en for $en in $names if {ds}.data_vars[$en].dtype.kind in $$kinds), $names[0])", within=inner)
        kinds = const_value(mo.enodes.get('kinds'), None) if pick_ex is not None else None
        ctx.check('R12.3', pick_ex is not None and isinstance(kinds, str) and set(kinds) <= set('fc') and 'f' in kinds,
                  "the floor is searched in a variable that can hold missing values (a floating point member of the group; an integer variable never shows a floor)", of,
                  pick_ex or inner, construct=f"example name: {norm_text(pick_ex.value)[:110] if pick_ex is not None else 'the first variable of the group, whatever its type'}")
        ex = None
        if pick_ex is not None:
            for alt in (f"$ex = {ds}.data_vars[$exname].isel({{$k: 0 for $k in $nsd}}, drop=True, missing_dims='ignore')",
                        f"$ex = {ds}[$exname].isel({{$k: 0 for $k in $nsd}}, drop=True, missing_dims='ignore')"):
                ex = ex or mo.stmt(alt, within=inner)
        ctx.check('R12.3', ex is not None, "the example variable is reduced to index 0 of the non-spatial dimensions only", of, ex or inner,
                  construct=f"example = {norm_text(ex.value)[:120] if ex is not None else 'not recognised'}")
        fc = mo.stmt('$floor = _find_ocean_floor_indexes($ex, $dd)', within=inner) if ex is not None else None
        finds = [c for c in calls_in(of) if callee(ctx, of, c) == f"{DEPTH}._find_ocean_floor_indexes"]
        ctx.check('R12.3', fc is not None and len(finds) == 1, "the floor is searched once per group, in that example, along this depth dimension", of, fc or inner)
        sub = mo.stmt(f"$sub = utils.extract_vars({ds}, $names)", within=inner)
        pick = mo.stmt("$sub = $sub.isel({$dd: $floor}, drop=True, missing_dims='ignore')", within=inner) if sub is not None and fc is not None else None
        ctx.check('R12.3', pick is not None, "all variables of the group are picked at the one floor array along this depth dimension", of,
                  pick or inner, construct='dataset_subset.isel({depth_dimension: ocean_floor_indexes}, drop=True, ...)')
        dropc = mo.stmt('$sub = $sub.drop_vars([$cn for $cn, $cv in $sub.coords.items() if $cv.dims == ($dd,)])', within=inner) if sub is not None else None
        ctx.check('R12.3', dropc is not None and pick is not None and dropc.lineno < pick.lineno,
                  "coordinates lying only on this depth dimension are dropped from the group before the pick", of, dropc or inner)
        merge = mo.stmt(f"{ds} = $sub.merge({ds}, compat='override')", within=inner) if pick is not None else None
        ctx.check('R12.3', merge is not None and merge.lineno > pick.lineno and len([c for c in method_calls(of, 'merge')]) == 1,
                  "the reduced group is merged over the dataset (receiver wins), replacing the layered variables", of,
                  merge or inner, construct=f"merge: {norm_text(merge)[:90] if merge is not None else 'absent'}")
        drop = None
        for alt in (f"{ds} = {ds}.drop_dims($ddims, errors='ignore')", f"{ds} = {ds}.drop_dims($ddims)"):
            drop = drop or mo.stmt(alt)
        ok_drop = drop is not None and drop.lineno > outer.end_lineno and not any(x is drop for x in ast.walk(outer)) \
            and bool(of.returns()) and all(isinstance(r.value, ast.Name) and r.value.id == ds and r.lineno > drop.lineno for r in of.returns())
        ctx.check('R12.3', ok_drop, "the depth dimensions are dropped from the result after all groups are reduced", of, drop or of.node,
                  construct=f"drop: {norm_text(drop) if drop is not None else 'absent'}")

    # ---- R12.4
    with ctx.section('R12.4'):
        base = p.cls(BASE)
        for name in ('ocean_floor', 'select_variables', 'to_netcdf'):
            for fi in p.implementations(base, name):
                reads = [n for n in ast.walk(fi.node) if isinstance(n, ast.Attribute) and n.attr == 'time_coordinate'
                         and isinstance(n.value, ast.Name) and n.value.id == 'self']
                if not reads:
                    ctx.check('R12.4', True, "no read of the optional time coordinate", fi, fi.node, construct=f"{fi.short}: no time_coordinate read")
                    continue
                for r in reads:
                    ok = False
                    for t in walk_no_nested(fi.node):
                        if isinstance(t, ast.Try) and any(x is r for b in t.body for x in ast.walk(b)):
                            for h in t.handlers:
                                names = []
                                if h.type is None:
                                    names = ['BaseException']
                                elif isinstance(h.type, ast.Tuple):
                                    names = [dotted(e) or '' for e in h.type.elts]
                                else:
                                    names = [dotted(h.type) or '']
                                if any(nm.rsplit('.', 1)[-1] in ('NoSuchCoordinateError', 'KeyError', 'LookupError', 'Exception', 'BaseException') for nm in names):
                                    ok = True
                    ctx.check('R12.4', ok, "the read is inside a try whose handler catches NoSuchCoordinateError (a KeyError)", fi, r,
                              construct=f"{fi.short}: self.time_coordinate")
        # the wrapper passes dataset and depth coordinates
        for w in p.implementations(base, 'ocean_floor'):
            wf = ctx.flow(w)
            cs = [c for c in calls_in(w) if callee(ctx, w, c) == f"{DEPTH}.ocean_floor"]
            from .common import arg_or_kw
            a0 = arg_or_kw(cs[0], 0, 'dataset') if len(cs) == 1 else None
            a1 = arg_or_kw(cs[0], 1, 'depth_coordinates') if len(cs) == 1 else None
            ok = (a0 is not None and a1 is not None and wf.canon(a0) == ('attr', ('param', 'self'), 'dataset')
                  and wf.canon(a1) == ('attr', ('param', 'self'), 'depth_coordinates'))
            ctx.check('R12.3', ok, "Convention.ocean_floor reduces its own dataset over all of its depth coordinates", w, cs[0] if cs else w.node)



# --------------------------------------------------------------------------- checker self-test
from ..variants import V  # noqa: E402

_D = 'src/emsarray/operations/depth.py'
_B = 'src/emsarray/conventions/_base.py'
VARIANTS = [
    V('C12', 'bathymetry-joins-depth-coordinates', 'src/emsarray/conventions/_base.py', "                self.get_grid_kind(data_array)\n                continue\n", "                self.get_grid_kind(data_array)\n                pass\n", 'R12.7'),
    V('C12', 'non-spatial-list-discarded', 'src/emsarray/operations/depth.py', "    if non_spatial_variables is None:\n        non_spatial_variables = []", "    if non_spatial_variables is not None:\n        non_spatial_variables = []", 'R12.8'),
    V('C12', 'scalar-coordinate-indexed', 'src/emsarray/utils.py', "        if len(coordinate.dims) == 0:\n            # A scalar coordinate, such as the time of one selected record,\n            # has no dimension\n            continue\n", "", 'R12.3'),
    V('C12', 'floor-index-left-lazy', _D, "    return cast(xarray.DataArray, max_depth_indexes.compute())", "    return cast(xarray.DataArray, max_depth_indexes)", 'R12.2'),
    V('C12', 'depth-bounds-kept', _D, "    dataset = dataset.drop_vars([\n        name for name in depth_bounds_names if name in dataset.variables])\n", "", 'R12.3'),
    V('C12', 'example-first-variable', _D, "            data_array = dataset.data_vars[example_name].isel(", "            data_array = dataset.data_vars[variable_names[0]].isel(", 'R12.3'),
    V('C12', 'deep-to-shallow-true', _D, "        positive_down=True, deep_to_shallow=False)", "        positive_down=True, deep_to_shallow=True)", 'R12.1'),
    V('C12', 'argmin', _D, "    max_depth_indexes = depth_indexes.argmax(str(depth_dimension))", "    max_depth_indexes = depth_indexes.argmin(str(depth_dimension))", 'R12.2'),
    V('C12', 'no-cumsum', _D, "    depth_indexes = (data_array * 0 + 1).cumsum(str(depth_dimension))", "    depth_indexes = (data_array * 0 + 1)", 'R12.2'),
    V('C12', 'count-all-layers', _D, "    depth_indexes = (data_array * 0 + 1).cumsum(str(depth_dimension))", "    depth_indexes = (data_array.fillna(0) * 0 + 1).cumsum(str(depth_dimension))", 'R12.2'),
    V('C12', 'stale-dataset', _D, "    dataset = normalize_depth_variables(\n        dataset, depth_coordinates,", "    normalized = normalize_depth_variables(\n        dataset, depth_coordinates,", 'R12.1'),
    V('C12', 'isel-other-dimension', _D, "                {depth_dimension: ocean_floor_indexes},", "                {depth_dimensions[0]: ocean_floor_indexes},", 'R12.3'),
    V('C12', 'merge-reversed', _D, "            dataset = dataset_subset.merge(dataset, compat='override')", "            dataset = dataset.merge(dataset_subset, compat='override')", 'R12.3'),
    V('C12', 'depth-dims-not-dropped', _D, "    dataset = dataset.drop_dims(depth_dimensions, errors='ignore')\n", "", 'R12.3'),
    V('C12', 'example-last-variable', _D, "            data_array = dataset.data_vars[example_name].isel(\n                {name: 0 for name in non_spatial_dimensions},", "            data_array = dataset.data_vars[example_name].isel(\n                {name: -1 for name in non_spatial_dimensions},", 'R12.3'),
    V('C12', 'time-unguarded-again', _B, "        non_spatial_variables = []\n        try:\n            non_spatial_variables.append(self.time_coordinate)\n        except NoSuchCoordinateError:\n            pass\n", "        non_spatial_variables = [self.time_coordinate]\n", 'R12.4'),
    V('C12', 'wrapper-one-depth', _B, "            self.dataset, self.depth_coordinates,\n            non_spatial_variables=non_spatial_variables)", "            self.dataset, [self.depth_coordinate],\n            non_spatial_variables=non_spatial_variables)", 'R12.3'),
    # benign
    V('C12', 'benign-notnull', _D, "    depth_indexes = (data_array * 0 + 1).cumsum(str(depth_dimension))", "    depth_indexes = data_array.notnull().cumsum(str(depth_dimension))", None),
]
