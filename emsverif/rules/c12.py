"""C12 - ocean floor extraction: orientation / dimension agreement only."""
from __future__ import annotations

import ast

from ..model import const_value, dotted, kwarg, norm_text, walk_no_nested
from ..report import Context
from .common import arg_or_kw, calls_in, callee, enclosing_ifs, is_none, method_calls

DEPTH = 'emsarray.operations.depth'
BASE = 'emsarray.conventions._base.Convention'
UTILS = 'emsarray.utils'


def _strip_str(e):
    if isinstance(e, ast.Call) and dotted(e.func) == 'str' and len(e.args) == 1:
        return e.args[0]
    return e


def run(ctx: Context) -> None:
    p = ctx.p
    ctx.rule('R12.1', "ocean_floor normalises to shallow-to-deep first (constant deep_to_shallow=False) and every later use of the dataset is of the normalised value", floor=3)
    ctx.rule('R12.2', "the reducer agrees with that orientation: the floor is the last valid layer = argmax over the depth dimension of a cumulative count of valid layers", floor=3)
    ctx.rule('R12.3', "one depth dimension throughout: skip test, spatial dimension set, floor search, the isel that picks the floor; all variables of a group are indexed by the one floor array; the reduced group overrides the originals; depth dimensions are dropped", floor=9)
    ctx.rule('R12.4', "Convention methods that read the optional time coordinate for another purpose tolerate its absence", floor=3)
    ctx.rule('R12.5', "the normalisation ocean_floor relies on is sound: ordering is read from the copy's current values with the current sign, and a mismatch reverses the whole dataset (shared with C13 R13.3-R13.5)", floor=10)
    ctx.assume("NOT decided: NaN semantics of cumsum/argmax, all-NaN columns, static sea floor across the variables of a group - run-time numerical facts")
    ctx.assume("xarray: Dataset.isel with a DataArray indexer picks per-location layers; merge(compat='override') keeps the receiver's variables")

    of = ctx.func(f"{DEPTH}.ocean_floor")
    flow = ctx.flow(of)
    cfg = ctx.cfg(of)
    ds = of.params[0]
    norm = [c for c in calls_in(of) if callee(ctx, of, c) == f"{DEPTH}.normalize_depth_variables"]
    ctx.need('R12.1', len(norm) == 1, "ocean_floor calls normalize_depth_variables once", of)
    nc = norm[0]
    d2s = kwarg(nc, 'deep_to_shallow')
    pdn = kwarg(nc, 'positive_down')
    ctx.check('R12.1', d2s is not None and const_value(d2s, None) is False, "deep_to_shallow=False: layers run from the surface down", of, nc,
              construct=f"deep_to_shallow={norm_text(d2s) if d2s is not None else 'unset'}")
    ctx.check('R12.1', pdn is not None and isinstance(const_value(pdn, None), bool),
              "the sign convention is pinned to a constant so the ordering test cannot depend on a guessed sign per call", of, nc,
              construct=f"positive_down={norm_text(pdn) if pdn is not None else 'unset'}")
    ok_args = (len(nc.args) >= 2 and flow.canon(nc.args[0]) == ('param', ds))
    # every later load of `dataset` does not see the parameter any more
    from ..cfg import stmt_of
    st_norm = stmt_of(of, nc)
    stale = []
    for n in ast.walk(of.node):
        if isinstance(n, ast.Name) and n.id == ds and isinstance(n.ctx, ast.Load):
            if any(x is n for x in ast.walk(nc)):
                continue
            if any(d.kind == 'param' for d in flow.defs_of(n)):
                stale.append(n)
    assigned = isinstance(st_norm, ast.Assign) and isinstance(st_norm.targets[0], ast.Name) and st_norm.targets[0].id == ds
    ctx.check('R12.1', ok_args and assigned and not stale, "the normalised dataset replaces the input before anything else reads it", of,
              stale[0] if stale else nc, construct='dataset = normalize_depth_variables(dataset, ...); stale uses of the input: ' + str(len(stale)))

    from . import c13
    from .common import share_obligations
    share_obligations(ctx, c13, {'R13.3', 'R13.4', 'R13.5'}, 'R12.5')
    from .common import iterable_param_obligations
    iterable_param_obligations(ctx, 'R12.1', of)

    # ---- R12.2 the reducer
    with ctx.section('R12.2 the reducer'):
        ff = ctx.func(f"{DEPTH}._find_ocean_floor_indexes")
        fflow = ctx.flow(ff)
        da, dd = ff.params[0], ff.params[1]
        rets = ff.returns()
        ctx.need('R12.2', len(rets) == 1, "_find_ocean_floor_indexes has one return", ff)
        v = fflow.resolve(rets[0].value)
        while isinstance(v, ast.Call) and (dotted(v.func) or '').endswith('cast') and len(v.args) == 2:
            v = fflow.resolve(v.args[1])
        ok_argmax = isinstance(v, ast.Call) and isinstance(v.func, ast.Attribute) and v.func.attr == 'argmax'
        ctx.check('R12.2', ok_argmax, "the floor index is an argmax (last layer of a non-decreasing valid count)", ff, rets[0],
                  construct=f"reducer: {norm_text(v.func) if isinstance(v, ast.Call) else norm_text(v)}")
        inner = fflow.resolve(v.func.value) if ok_argmax else None
        ok_cumsum = isinstance(inner, ast.Call) and isinstance(inner.func, ast.Attribute) and inner.func.attr == 'cumsum'
        ctx.check('R12.2', ok_cumsum, "argmax is taken over a cumulative sum along depth", ff, rets[0],
                  construct=f"argmax of: {norm_text(inner)[:80] if inner is not None else '?'}")
        if ok_argmax and ok_cumsum:
            d1 = _strip_str(v.args[0]) if v.args else kwarg(v, 'dim')
            d2 = _strip_str(inner.args[0]) if inner.args else kwarg(inner, 'dim')
            ok_dims = d1 is not None and d2 is not None and fflow.canon(_strip_str(d1)) == ('param', dd) and fflow.canon(_strip_str(d2)) == ('param', dd)
            ctx.check('R12.3', ok_dims, "cumsum and argmax run along the depth dimension argument", ff, rets[0],
                      construct=f"cumsum({norm_text(d2) if d2 is not None else '?'}).argmax({norm_text(d1) if d1 is not None else '?'})")
            counted = fflow.resolve(inner.func.value)
            ok_count = False
            # data_array * 0 + 1   (NaN stays NaN, valid -> 1)   or notnull()/isfinite forms
            if isinstance(counted, ast.BinOp) and isinstance(counted.op, ast.Add) and const_value(counted.right, None) == 1 \
                    and isinstance(counted.left, ast.BinOp) and isinstance(counted.left.op, ast.Mult) \
                    and const_value(counted.left.right, None) == 0 and fflow.canon(counted.left.left) == ('param', da):
                ok_count = True
            if isinstance(counted, ast.Call) and isinstance(counted.func, ast.Attribute) and counted.func.attr in ('notnull', 'notna') \
                    and fflow.canon(counted.func.value) == ('param', da):
                ok_count = True
            ctx.check('R12.2', ok_count, "what is accumulated is 1 per valid layer of the variable (missing stays missing / zero)", ff, rets[0],
                      construct=f"accumulated: {norm_text(counted)}")

    # ---- R12.3 in ocean_floor
    with ctx.section('R12.3 in ocean_floor'):
        outer = [n for n in walk_no_nested(of.node) if isinstance(n, ast.For) and isinstance(n.target, ast.Name)
                 and n.target.id == 'depth_dimension']
        ctx.need('R12.3', len(outer) == 1, "ocean_floor loops over the depth dimensions", of)
        dvar = 'depth_dimension'
        it = flow.resolve(outer[0].iter)
        src_ok = flow.reaches(outer[0].iter, lambda n: isinstance(n, ast.Call) and callee(ctx, of, n) == f"{UTILS}.dimensions_from_coords"
                              and len(n.args) == 2 and flow.canon(n.args[1]) != ('param', 'non_spatial_variables')
                              and flow.reaches(n.args[1], lambda m: isinstance(m, ast.Name) and m.id == of.params[1]))
        ctx.check('R12.3', src_ok, "the depth dimensions are those of the depth coordinates given", of, outer[0],
                  construct=f"for depth_dimension in {norm_text(outer[0].iter)}")
        skips = [n for n in ast.walk(outer[0]) if isinstance(n, ast.If) and isinstance(n.test, ast.Compare)
                 and isinstance(n.test.ops[0], ast.NotIn) and norm_text(n.test.left) == dvar
                 and any(isinstance(s, ast.Continue) for s in n.body)]
        ok_skip = len(skips) == 1 and norm_text(skips[0].test.comparators[0]).endswith('.dims')
        ctx.check('R12.3', ok_skip, "variables without this depth dimension are skipped", of, skips[0] if skips else outer[0],
                  construct=f"skip test: {norm_text(skips[0].test) if skips else 'absent'}")
        diffs = [c for c in method_calls(of, 'difference')]
        ok_sp = False
        if len(diffs) == 1:
            c = diffs[0]
            args = [norm_text(a) for a in c.args]
            ok_sp = ('{' + dvar + '}') in args and 'non_spatial_dimensions' in args and norm_text(c.func.value).startswith('frozenset(') \
                and norm_text(c.func.value).endswith('.dims)')
        ctx.check('R12.3', ok_sp, "spatial dimensions = the variable's dims minus this depth dimension and the non-spatial ones", of,
                  diffs[0] if diffs else outer[0])
        finds = [c for c in calls_in(of) if callee(ctx, of, c) == f"{DEPTH}._find_ocean_floor_indexes"]
        ctx.need('R12.3', len(finds) == 1, "ocean_floor calls _find_ocean_floor_indexes once per group", of)
        fc = finds[0]
        ok_find = len(fc.args) == 2 and norm_text(fc.args[1]) == dvar
        ctx.check('R12.3', ok_find, "the floor is searched along this depth dimension", of, fc)
        ex = flow.resolve(fc.args[0])
        ok_ex = False
        if isinstance(ex, ast.Call) and isinstance(ex.func, ast.Attribute) and ex.func.attr == 'isel' and ex.args:
            base_var = flow.resolve(ex.func.value)
            sel = ex.args[0]
            ok_sel = (isinstance(sel, ast.DictComp) and const_value(sel.value, None) == 0
                      and norm_text(sel.generators[0].iter) == 'non_spatial_dimensions' and not sel.generators[0].ifs
                      and isinstance(sel.key, ast.Name) and isinstance(sel.generators[0].target, ast.Name)
                      and sel.key.id == sel.generators[0].target.id)
            ok_base = (isinstance(base_var, ast.Subscript) and isinstance(base_var.slice, ast.Subscript)
                       and const_value(base_var.slice.slice, None) == 0 and norm_text(base_var.slice.value) == 'variable_names'
                       and norm_text(base_var.value) in (f"{ds}.data_vars", ds))
            md = kwarg(ex, 'missing_dims')
            dr = kwarg(ex, 'drop')
            ok_ex = ok_sel and ok_base and md is not None and const_value(md, None) == 'ignore' and dr is not None and const_value(dr, None) is True
        ctx.check('R12.3', ok_ex, "the example variable is the group's first, reduced to index 0 of the non-spatial dimensions only", of, fc,
                  construct=f"example = {norm_text(ex)[:120]}")
        isels = [c for c in method_calls(of, 'isel') if c.args and isinstance(c.args[0], ast.Dict)]
        ok_pick = False
        for c in isels:
            d = c.args[0]
            if len(d.keys) == 1 and norm_text(d.keys[0]) == dvar and flow.resolve(d.values[0]) is fc:
                subset = flow.alternatives(c.func.value) if isinstance(c.func.value, ast.Name) else []
                recv_ok = flow.reaches(c.func.value, lambda n: isinstance(n, ast.Call) and callee(ctx, of, n) == f"{UTILS}.extract_vars"
                                       and len(n.args) >= 2 and norm_text(n.args[1]) == 'variable_names')
                dr = kwarg(c, 'drop')
                ok_pick = recv_ok and dr is not None and const_value(dr, None) is True
                pick = c
        ctx.check('R12.3', ok_pick, "all variables of the group are picked at the one floor array along this depth dimension", of,
                  isels[0] if isels else outer[0], construct='dataset_subset.isel({depth_dimension: ocean_floor_indexes}, drop=True, ...)')
        merges = [c for c in method_calls(of, 'merge')]
        ok_merge = False
        if len(merges) == 1 and ok_pick:
            m = merges[0]
            cp = kwarg(m, 'compat')
            ok_merge = (flow.reaches(m.func.value, lambda n: n is pick) and len(m.args) == 1 and norm_text(m.args[0]) == ds
                        and cp is not None and const_value(cp, None) == 'override')
            st = stmt_of(of, m)
            ok_merge = ok_merge and isinstance(st, ast.Assign) and norm_text(st.targets[0]) == ds
        ctx.check('R12.3', ok_merge, "the reduced group is merged over the dataset (receiver wins), replacing the layered variables", of,
                  merges[0] if merges else outer[0], construct=f"merge: {norm_text(merges[0])[:90] if merges else 'absent'}")
        groups = [n for n in ast.walk(outer[0]) if isinstance(n, ast.Call) and isinstance(n.func, ast.Attribute) and n.func.attr == 'append'
                  and norm_text(n.func.value) == 'dimension_sets[spatial_dimensions]']
        ctx.check('R12.3', len(groups) == 1 and norm_text(groups[0].args[0]) == 'name', "variables are grouped by their spatial dimension set", of,
                  groups[0] if groups else outer[0], construct='dimension_sets[spatial_dimensions].append(name)')
        drops = [c for c in method_calls(of, 'drop_dims')]
        ok_drop = False
        for c in drops:
            st = stmt_of(of, c)
            ok_drop = (c.args and norm_text(c.args[0]) == norm_text(outer[0].iter).replace('sorted(', '').split(',')[0].strip('()')
                       or (c.args and 'depth_dimensions' in norm_text(c.args[0])))
            ok_drop = ok_drop and all(flow.reaches(r.value, lambda n: n is c) for r in of.returns())
            # after the loop
            ok_drop = ok_drop and not any(x is c for x in ast.walk(outer[0]))
        ctx.check('R12.3', ok_drop, "the depth dimensions are dropped from the result after all groups are reduced", of, drops[0] if drops else of.node,
                  construct=f"drop: {norm_text(drops[0]) if drops else 'absent'}")

    # ---- R12.4
    with ctx.section('R12.4'):
        base = p.cls(BASE)
        for name in ('ocean_floor', 'select_variables', 'to_netcdf'):
            for fi in p.implementations(base, name):
                reads = [n for n in ast.walk(fi.node) if isinstance(n, ast.Attribute) and n.attr == 'time_coordinate'
                         and isinstance(n.value, ast.Name) and n.value.id == 'self']
                if not reads:
                    ctx.check('R12.4', True, "no read of the optional time coordinate", fi, fi.node, construct=f"{fi.short}: no time_coordinate read")
                    continue
                for r in reads:
                    ok = False
                    for t in walk_no_nested(fi.node):
                        if isinstance(t, ast.Try) and any(x is r for b in t.body for x in ast.walk(b)):
                            for h in t.handlers:
                                names = []
                                if h.type is None:
                                    names = ['BaseException']
                                elif isinstance(h.type, ast.Tuple):
                                    names = [dotted(e) or '' for e in h.type.elts]
                                else:
                                    names = [dotted(h.type) or '']
                                if any(nm.rsplit('.', 1)[-1] in ('NoSuchCoordinateError', 'KeyError', 'LookupError', 'Exception', 'BaseException') for nm in names):
                                    ok = True
                    ctx.check('R12.4', ok, "the read is inside a try whose handler catches NoSuchCoordinateError (a KeyError)", fi, r,
                              construct=f"{fi.short}: self.time_coordinate")
        # the wrapper passes dataset and depth coordinates
        for w in p.implementations(base, 'ocean_floor'):
            wf = ctx.flow(w)
            cs = [c for c in calls_in(w) if callee(ctx, w, c) == f"{DEPTH}.ocean_floor"]
            ok = (len(cs) == 1 and len(cs[0].args) == 2 and wf.canon(cs[0].args[0]) == ('attr', ('param', 'self'), 'dataset')
                  and wf.canon(cs[0].args[1]) == ('attr', ('param', 'self'), 'depth_coordinates'))
            ctx.check('R12.3', ok, "Convention.ocean_floor reduces its own dataset over all of its depth coordinates", w, cs[0] if cs else w.node)



# --------------------------------------------------------------------------- checker self-test
from ..variants import V  # noqa: E402

_D = 'src/emsarray/operations/depth.py'
_B = 'src/emsarray/conventions/_base.py'
VARIANTS = [
    V('C12', 'deep-to-shallow-true', _D, "        positive_down=True, deep_to_shallow=False)", "        positive_down=True, deep_to_shallow=True)", 'R12.1'),
    V('C12', 'argmin', _D, "    max_depth_indexes = depth_indexes.argmax(str(depth_dimension))", "    max_depth_indexes = depth_indexes.argmin(str(depth_dimension))", 'R12.2'),
    V('C12', 'no-cumsum', _D, "    depth_indexes = (data_array * 0 + 1).cumsum(str(depth_dimension))", "    depth_indexes = (data_array * 0 + 1)", 'R12.2'),
    V('C12', 'count-all-layers', _D, "    depth_indexes = (data_array * 0 + 1).cumsum(str(depth_dimension))", "    depth_indexes = (data_array.fillna(0) * 0 + 1).cumsum(str(depth_dimension))", 'R12.2'),
    V('C12', 'stale-dataset', _D, "    dataset = normalize_depth_variables(\n        dataset, depth_coordinates,", "    normalized = normalize_depth_variables(\n        dataset, depth_coordinates,", 'R12.1'),
    V('C12', 'isel-other-dimension', _D, "                {depth_dimension: ocean_floor_indexes},", "                {depth_dimensions[0]: ocean_floor_indexes},", 'R12.3'),
    V('C12', 'merge-reversed', _D, "            dataset = dataset_subset.merge(dataset, compat='override')", "            dataset = dataset.merge(dataset_subset, compat='override')", 'R12.3'),
    V('C12', 'depth-dims-not-dropped', _D, "    dataset = dataset.drop_dims(depth_dimensions, errors='ignore')\n", "", 'R12.3'),
    V('C12', 'example-last-variable', _D, "            data_array = dataset.data_vars[variable_names[0]].isel(\n                {name: 0 for name in non_spatial_dimensions},", "            data_array = dataset.data_vars[variable_names[0]].isel(\n                {name: -1 for name in non_spatial_dimensions},", 'R12.3'),
    V('C12', 'time-unguarded-again', _B, "        non_spatial_variables = []\n        try:\n            non_spatial_variables.append(self.time_coordinate)\n        except NoSuchCoordinateError:\n            pass\n", "        non_spatial_variables = [self.time_coordinate]\n", 'R12.4'),
    V('C12', 'wrapper-one-depth', _B, "            self.dataset, self.depth_coordinates,\n            non_spatial_variables=non_spatial_variables)", "            self.dataset, [self.depth_coordinate],\n            non_spatial_variables=non_spatial_variables)", 'R12.3'),
    # benign
    V('C12', 'benign-notnull', _D, "    depth_indexes = (data_array * 0 + 1).cumsum(str(depth_dimension))", "    depth_indexes = data_array.notnull().cumsum(str(depth_dimension))", None),
]
