"""C03 - flattening and winding variables are exact inverses."""
from __future__ import annotations

import ast
from typing import Optional

from ..linear import Lin, const, linear, symbol
from ..model import AnalysisError, const_value, dotted, kwarg, norm_text, walk_no_nested
from ..report import Context
from .common import arg_or_kw, calls_in, callee, enclosing_ifs, is_none, method_calls, peel_sequence

UTILS = 'emsarray.utils'
DIMCONV = 'emsarray.conventions._base.DimensionConvention'
MOVE_ONLY_METHODS = {'reshape', 'transpose', 'copy', 'view', 'swapaxes', 'moveaxis'}


def _returned_dataarray(ctx, fi):
    flow = ctx.flow(fi)
    out = []
    for r in fi.returns():
        v = flow.resolve(r.value)
        if isinstance(v, ast.Call) and (dotted(v.func) or '').endswith('DataArray'):
            out.append((r, v))
    return out


def _values_chain(flow, expr):
    """Peel `.reshape(..)` / `.transpose(..)` / `.copy()` method calls; return (methods, base expr)."""
    methods = []
    e = flow.resolve(expr)
    while True:
        if isinstance(e, ast.Call) and isinstance(e.func, ast.Attribute) and e.func.attr in MOVE_ONLY_METHODS:
            methods.append(e)
            e = flow.resolve(e.func.value)
            continue
        break
    return methods, e


def as_splice(ctx, fi, expr, allow_call: bool = True):
    """expr == t[:i] + tuple(v) + t[i+1:]  (or utils.splice_tuple(t, i, v)) -> (t, i, v) nodes, else None."""
    flow = ctx.flow(fi)
    e = flow.resolve(expr)
    if allow_call and isinstance(e, ast.Call) and callee(ctx, fi, e) == f"{UTILS}.splice_tuple" and len(e.args) == 3:
        return e.args[0], e.args[1], e.args[2]
    parts = _flatten_add(e)
    if len(parts) != 3:
        return None
    a, m, z = (flow.resolve(x) for x in parts)
    if not (isinstance(a, ast.Subscript) and isinstance(a.slice, ast.Slice) and a.slice.lower is None and a.slice.step is None and a.slice.upper is not None):
        return None
    t, i = a.value, a.slice.upper
    layers, core = peel_sequence(flow, m)
    if not all(l[0] == 'conv' for l in layers):
        return None
    if not (isinstance(z, ast.Subscript) and isinstance(z.slice, ast.Slice) and z.slice.upper is None and z.slice.step is None):
        return None
    i_form = linear(flow, i)
    if i_form is None:
        return None
    inner = flow.resolve(z.value)
    lo = linear(flow, z.slice.lower) if z.slice.lower is not None else const(0)
    if lo is None:
        return None
    if flow.canon(inner) == flow.canon(t):
        ok = lo == i_form + const(1)
    elif isinstance(inner, ast.Subscript) and flow.canon(inner.value) == flow.canon(t) and isinstance(inner.slice, ast.Slice) \
            and inner.slice.upper is None and inner.slice.step is None and inner.slice.lower is not None:
        lo2 = linear(flow, inner.slice.lower)
        ok = lo2 is not None and lo2 + lo == i_form + const(1)
    else:
        ok = False
    return (t, i, core) if ok else None


def _flatten_add(e: ast.AST) -> list[ast.AST]:
    if isinstance(e, ast.BinOp) and isinstance(e.op, ast.Add):
        return _flatten_add(e.left) + _flatten_add(e.right)
    return [e]


def run(ctx: Context) -> None:
    p = ctx.p
    base = p.cls(DIMCONV)
    ctx.rule('R03.1', "ravel moves exactly the grid dimensions to the end in sequence order and merges exactly them (C order); wind splices dims and sizes at the same index, in the same order", floor=14)
    ctx.rule('R03.2', "values only pass through transpose / reshape / copy between input and output", floor=3)
    ctx.rule('R03.3', "the other dimensions keep their relative order and the requested dimensions are appended as given", floor=2)
    ctx.rule('R03.4', "a variable on no grid is refused: get_grid_kind raises on its fall-through exit and ravel consults it; move_dimensions_to_end raises for absent dimensions", floor=4)
    ctx.rule('R03.5', "the linear dimension is chosen by axis, else by name, else the last dimension", floor=1)
    ctx.rule('R03.6', "an automatically chosen dimension name is never one that already exists", floor=2)
    ctx.rule('R03.7', "no other refusal: wind_dimension and splice_tuple never raise on their own; ravel_dimensions only refuses a linear dimension name that collides with a remaining dimension; move_dimensions_to_end and get_grid_kind raise only as stated (winding arbitrary linear data always succeeds)", floor=5)
    ctx.rule('R03.9', "helpers the flattening rests on: CF grid dimensions are read from the coordinate variables; every exit of move_dimensions_to_end has the requested dimensions last, in the requested order", floor=5)
    from . import infra as _infra
    _infra.cf_grid_dimensions(ctx, 'R03.9')
    _infra.move_dimensions_exits(ctx, 'R03.9')
    from .common import adopt_foundations as _adopt
    _adopt(ctx, 'R03.8', ['topology'], floor=30)
    ctx.rule('R03.12', "the axis or name a caller gave for the linear dimension is used: the defaults (last axis, an unused name, the default grid kind) are substituted only where none was given", floor=0)
    with ctx.section('R03.12'):
        from . import infra as _infra312
        _infra312.none_default_discipline(ctx, 'R03.12', ['emsarray.conventions._base.DimensionConvention.wind', 'emsarray.utils.ravel_dimensions'])
    ctx.rule('R03.11', "the deprecated alias make_linear is ravel: its argument is passed on as given", floor=1)
    with ctx.section('R03.11'):
        from . import infra as _infra11
        _infra11.passes_parameters_on(ctx, 'R03.11', 'emsarray.conventions._base.Convention.make_linear', "make_linear stands for ravel")
    ctx.rule('R03.10', "the sizes that wind takes from the convention's grid_shape are, kind by kind and under the same conditions, the sizes of the dimensions grid_dimensions binds to that kind (facts shared with C01 R01.2)", floor=4)
    from . import c01 as _c01
    from .common import share_obligations as _share01
    _share01(ctx, _c01, {'R01.2'}, 'R03.10')
    ctx.assume("numpy reshape in C order merges/splits trailing axes row-major; xarray transpose only permutes axes")

    for q, allowed in ((f"{UTILS}.wind_dimension", 0), (f"{UTILS}.ravel_dimensions", 1), (f"{UTILS}.splice_tuple", 0),
                       (f"{UTILS}.move_dimensions_to_end", 1), (f"{DIMCONV}.get_grid_kind", 1), (f"{DIMCONV}.ravel", 0), (f"{DIMCONV}.wind", 0)):
        f = ctx.func(q)
        rs = [n for n in ast.walk(f.node) if isinstance(n, ast.Raise)]
        ctx.check('R03.7', len(rs) <= allowed, f"{f.short} has at most {allowed} refusal(s)", f, rs[allowed] if len(rs) > allowed else f.node,
                  construct=f"{f.short}: {len(rs)} raise statement(s): {[norm_text(r)[:60] for r in rs]}")

    # ------------------------------------------------------------------ utils.move_dimensions_to_end
    with ctx.section('utils.move_dimensions_to_end'):
        mv = ctx.func(f"{UTILS}.move_dimensions_to_end")
        flow = ctx.flow(mv)
        da, dims_p = mv.params[0], mv.params[1]
        # new_order
        transposes = [c for c in method_calls(mv, 'transpose')]
        ctx.need('R03.3', len(transposes) == 1, f"expected one transpose call", mv)
        tr = transposes[0]
        order = None
        if len(tr.args) == 1 and isinstance(tr.args[0], ast.Starred):
            order = flow.resolve(tr.args[0].value)
        elif len(tr.args) == 1:
            order = flow.resolve(tr.args[0])
        parts = _flatten_add(order) if order is not None else []
        ok_first = False
        ok_last = False
        if len(parts) == 2:
            first, last = flow.resolve(parts[0]), flow.resolve(parts[1])
            if isinstance(first, (ast.ListComp, ast.GeneratorExp)) and len(first.generators) == 1:
                g = first.generators[0]
                ok_iter = flow.canon(g.iter) == ('attr', ('param', da), 'dims')
                ok_elt = isinstance(first.elt, ast.Name) and isinstance(g.target, ast.Name) and first.elt.id == g.target.id
                ok_if = (len(g.ifs) == 1 and isinstance(g.ifs[0], ast.Compare) and len(g.ifs[0].ops) == 1
                         and isinstance(g.ifs[0].ops[0], ast.NotIn) and isinstance(g.ifs[0].left, ast.Name)
                         and g.ifs[0].left.id == g.target.id
                         and flow.canon(g.ifs[0].comparators[0]) == ('param', dims_p))
                ok_first = ok_iter and ok_elt and ok_if
            layers, core = peel_sequence(flow, last)
            ok_last = all(l[0] == 'conv' for l in layers) and flow.canon(core) == ('param', dims_p)
        ctx.check('R03.3', ok_first, "kept dimensions are data_array.dims filtered by `not in dimensions`, in order", mv, tr,
                  construct=f"new order, first part: {norm_text(parts[0]) if parts else '?'}")
        ctx.check('R03.3', ok_last, "the requested dimensions are appended exactly as given", mv, tr,
                  construct=f"new order, last part: {norm_text(parts[1]) if len(parts) > 1 else '?'}")
        ctx.check('R03.1', flow.canon(tr.func.value) == ('param', da) and not tr.keywords,
                  "the transpose is applied to the input array with the new order", mv, tr)
        # all returns are moves of the input
        for r in mv.returns():
            methods, b = _values_chain(flow, r.value)
            ok = flow.canon(b) == ('param', da) and len(methods) >= 1
            ctx.check('R03.2', ok, "move_dimensions_to_end returns the input only transposed or copied", mv, r)
        # refusal
        raises = [n for n in walk_no_nested(mv.node) if isinstance(n, ast.Raise)]
        ok_raise = False
        for rs in raises:
            for st, inb in enclosing_ifs(mv, rs):
                t = st.test
                txt = norm_text(t)
                if inb and isinstance(t, ast.UnaryOp) and isinstance(t.op, ast.Not) and isinstance(t.operand, ast.Call) \
                        and isinstance(t.operand.func, ast.Attribute) and t.operand.func.attr == 'issuperset' \
                        and t.operand.args and flow.canon(t.operand.args[0]) == ('param', dims_p):
                    recv = flow.resolve(t.operand.func.value)
                    if isinstance(recv, ast.Call) and dotted(recv.func) == 'set' and recv.args \
                            and flow.canon(recv.args[0]) == ('attr', ('param', da), 'dims'):
                        ok_raise = True
        cfg = ctx.cfg(mv)
        dominated = ok_raise and all(
            any(cfg.dominates(st, cfg.enclosing(tr) or tr) for st in walk_no_nested(mv.node)
                if isinstance(st, ast.If) and any(isinstance(x, ast.Raise) for x in st.body))
            for _ in [0])
        ctx.check('R03.4', ok_raise and dominated, "raises unless set(data_array.dims) is a superset of the requested dimensions, before transposing", mv,
                  raises[0] if raises else mv.node, construct='missing-dimension guard: ' + ('present' if ok_raise else 'absent'))

    # ------------------------------------------------------------------ utils.ravel_dimensions
    with ctx.section('utils.ravel_dimensions'):
        rv = ctx.func(f"{UTILS}.ravel_dimensions")
        flow = ctx.flow(rv)
        da, dims_p = rv.params[0], rv.params[1]
        moves = [c for c in calls_in(rv) if callee(ctx, rv, c) == f"{UTILS}.move_dimensions_to_end"]
        ctx.need('R03.1', len(moves) == 1, f"expected one move_dimensions_to_end call", rv)
        mvcall = moves[0]
        ok = (len(mvcall.args) == 2 and flow.canon(mvcall.args[0]) == ('param', da)
              and flow.canon(mvcall.args[1]) == ('param', dims_p))
        ctx.check('R03.1', ok, "the grid dimensions handed to move_dimensions_to_end are the caller's sequence, unpermuted", rv, mvcall)
        items = _returned_dataarray(ctx, rv)
        ctx.need('R03.2', len(items) == 1, f"expected one returned DataArray", rv)
        r, item = items[0]
        data = arg_or_kw(item, 0, 'data')
        dims = arg_or_kw(item, 2, 'dims')
        ctx.need('R03.2', data is not None and dims is not None, f"DataArray without data/dims", rv)
        methods, b = _values_chain(flow, data)
        moved_canon = flow.canon(mvcall)
        ok_base = isinstance(b, ast.Attribute) and b.attr in ('values', 'data') and flow.canon(b.value) == moved_canon
        ok_methods = len(methods) == 1 and methods[0].func.attr == 'reshape'
        ctx.check('R03.2', ok_base and ok_methods, "the output data is <moved array>.values.reshape(...) and nothing else", rv, item,
                  construct=f"data={norm_text(flow.resolve(data))}")
        len_dims = flow.canon(ast.parse(f"len({dims_p})", mode='eval').body)
        len_dims = ('call', ('global', 'len'), (('param', dims_p),), ())

        def is_neg_len(e: Optional[ast.AST]) -> bool:
            """e == -len(dimensions), through any local aliases."""
            if e is None:
                return False
            form = linear(flow, e)
            return form is not None and form == symbol(len_dims).scale(-1)

        if ok_methods:
            rs = methods[0]
            order_kw = kwarg(rs, 'order')
            ctx.check('R03.1', (order_kw is None or const_value(order_kw, None) == 'C') and len(rs.args) == 1,
                      "reshape uses C order", rv, rs, construct=f"reshape order={norm_text(order_kw) if order_kw is not None else 'default'}")
            shape = flow.resolve(rs.args[0]) if rs.args else None
            parts = _flatten_add(shape) if shape is not None else []
            ok_shape = False
            if len(parts) == 2:
                head, tail = flow.resolve(parts[0]), flow.resolve(parts[1])
                ok_head = (isinstance(head, ast.Subscript) and isinstance(head.slice, ast.Slice)
                           and head.slice.lower is None and head.slice.step is None and is_neg_len(head.slice.upper)
                           and isinstance(head.value, ast.Attribute) and head.value.attr == 'shape'
                           and flow.canon(head.value.value) == moved_canon)
                explicit = False
                if isinstance(tail, ast.Tuple) and len(tail.elts) == 1:
                    # the merged length written out: prod(moved.shape[-len(dimensions):]) (optionally through int())
                    sz = flow.resolve(tail.elts[0])
                    while isinstance(sz, ast.Call) and isinstance(sz.func, ast.Name) and sz.func.id == 'int' and len(sz.args) == 1:
                        sz = flow.resolve(sz.args[0])
                    if isinstance(sz, ast.Call) and callee(ctx, rv, sz) in ('numpy.prod', 'math.prod') and len(sz.args) == 1 and not sz.keywords:
                        a = flow.resolve(sz.args[0])
                        explicit = (isinstance(a, ast.Subscript) and isinstance(a.slice, ast.Slice) and a.slice.upper is None and a.slice.step is None
                                    and is_neg_len(a.slice.lower) and isinstance(a.value, ast.Attribute) and a.value.attr == 'shape'
                                    and flow.canon(a.value.value) == moved_canon)
                ok_tail = isinstance(tail, ast.Tuple) and len(tail.elts) == 1 and (const_value(tail.elts[0], None) == -1 or explicit)
                ok_shape = ok_head and ok_tail
                ctx.check('R03.1', ok_shape and explicit, "the merged length is written out as the product of the moved dimensions' lengths: numpy cannot infer a -1 when an accompanying dimension is empty "
                          "(a time dimension without records)", rv, rs, construct=f"merged length = {norm_text(tail.elts[0]) if isinstance(tail, ast.Tuple) and tail.elts else '?'}")
            # a linear dimension named like a dimension that stays cannot be told apart from it again (wind finds the first by name)
            from .common import guards as _g03
            ld_p = rv.params[2] if len(rv.params) > 2 else None
            clash = [n for n in walk_no_nested(rv.node) if isinstance(n, ast.Raise) and ld_p is not None
                     and any(pol and t.startswith(f"{ld_p} in ") for t, pol in _g03(rv, n))]
            ok_clash = False
            for n in clash:
                for t, pol in _g03(rv, n):
                    if pol and t.startswith(f"{ld_p} in "):
                        coll = t[len(f"{ld_p} in "):]
                        # the collection is the dimensions that stay: moved.dims[:-len(dimensions)] or the moved array's dims
                        for st_ in walk_no_nested(rv.node):
                            if isinstance(st_, ast.Assign) and norm_text(st_.targets[0]) == coll:
                                v_ = flow.resolve(st_.value)
                                if isinstance(v_, ast.Subscript) and isinstance(v_.slice, ast.Slice) and v_.slice.lower is None and is_neg_len(v_.slice.upper) \
                                        and isinstance(v_.value, ast.Attribute) and v_.value.attr == 'dims':
                                    ok_clash = True
            ctx.check('R03.1', ok_clash, "a caller's linear dimension name that is already the name of a dimension that stays is refused (two dimensions of one name: "
                      "wind would look the name up, find the first, and reshape the wrong axis)", rv, clash[0] if clash else rs,
                      construct=f"refusals guarded by `{ld_p} in <remaining dims>`: {len(clash)}")
            ctx.check('R03.1', ok_shape, "new shape = moved.shape[:-len(dimensions)] + (merged length,): exactly the moved dimensions are merged", rv, rs,
                      construct=f"new shape = {norm_text(shape) if shape is not None else '?'}")
        dparts = _flatten_add(flow.resolve(dims))
        ok_dims = False
        if len(dparts) == 2:
            head, tail = flow.resolve(dparts[0]), flow.resolve(dparts[1])
            ok_head = (isinstance(head, ast.Subscript) and isinstance(head.slice, ast.Slice) and head.slice.lower is None
                       and is_neg_len(head.slice.upper) and isinstance(head.value, ast.Attribute) and head.value.attr == 'dims'
                       and flow.canon(head.value.value) == moved_canon)
            ok_tail = isinstance(tail, ast.Tuple) and len(tail.elts) == 1
            ok_dims = ok_head and ok_tail
            lin_expr = tail.elts[0] if ok_tail else None
        ctx.check('R03.1', ok_dims, "new dims = moved.dims[:-len(dimensions)] + (linear dimension,)", rv, item,
                  construct=f"dims={norm_text(flow.resolve(dims))}")
        # the linear dimension: the caller's name or a fresh one
        if ok_dims and lin_expr is not None:
            c = flow.canon(lin_expr)
            lp = rv.params[2] if len(rv.params) > 2 else 'linear_dimension'
            ok_lin = c == ('param', lp) or (c[0] == 'phi' and ('param', lp) in c)
            fresh = [x for x in calls_in(rv) if callee(ctx, rv, x) == f"{UTILS}.find_unused_dimension"]
            from .common import facts as _facts03
            guarded = all((f"{lp} is None", True) in _facts03(ctx, rv, x, expand=False) for x in fresh)
            ctx.check('R03.6', ok_lin and len(fresh) >= 1 and guarded,
                      "the linear dimension is the caller's name, or find_unused_dimension(...) only when none was given", rv, item,
                      construct=f"linear dimension = {norm_text(lin_expr)}")

    # ------------------------------------------------------------------ utils.find_unused_dimension
    with ctx.section('utils.find_unused_dimension'):
        fu = ctx.func(f"{UTILS}.find_unused_dimension")
        flow = ctx.flow(fu)
        from .common import path_conditions
        ok_all = True
        detail = []
        for r in fu.returns():
            v = flow.resolve(r.value)
            good = False
            # the returned name is known, on every path to the return, not to be an existing dimension
            for test, pol in path_conditions(fu, r):
                one_def = isinstance(r.value, ast.Name) and isinstance(test, ast.Compare) and isinstance(test.left, ast.Name) and test.left.id == r.value.id \
                    and sum(1 for n_ in ast.walk(fu.node) if isinstance(n_, ast.Name) and n_.id == r.value.id and isinstance(n_.ctx, ast.Store)) == 1
                if isinstance(test, ast.Compare) and len(test.ops) == 1 and (flow.canon(test.left) == flow.canon(r.value) or one_def):
                    if (isinstance(test.ops[0], ast.NotIn) and pol) or (isinstance(test.ops[0], ast.In) and not pol):
                        good = True
            # `return next(c for c in candidates if c not in existing)`
            if isinstance(v, ast.Call) and dotted(v.func) == 'next' and v.args and isinstance(v.args[0], ast.GeneratorExp):
                g = v.args[0]
                gg = g.generators[0]
                if len(gg.ifs) == 1 and isinstance(gg.ifs[0], ast.Compare) and isinstance(gg.ifs[0].ops[0], ast.NotIn) \
                        and isinstance(g.elt, ast.Name) and isinstance(gg.ifs[0].left, ast.Name) and g.elt.id == gg.ifs[0].left.id:
                    good = True
            ok_all = ok_all and good
            detail.append(f"{norm_text(r)}: {'guarded' if good else 'UNGUARDED'}")
        ctx.check('R03.6', ok_all and len(fu.returns()) >= 1, "every returned name is tested `not in` the existing dimensions", fu, fu.node,
                  construct='; '.join(detail))

    # ------------------------------------------------------------------ utils.wind_dimension / splice_tuple
    with ctx.section('utils.wind_dimension / splice_tuple'):
        wd = ctx.func(f"{UTILS}.wind_dimension")
        flow = ctx.flow(wd)
        da = wd.params[0]
        items = _returned_dataarray(ctx, wd)
        ctx.need('R03.1', len(items) == 1, f"{wd.short}: expected one returned DataArray", wd)
        r, item = items[0]
        data = arg_or_kw(item, 0, 'data')
        dims = arg_or_kw(item, 2, 'dims')
        methods, b = _values_chain(flow, data)
        ok = (len(methods) == 1 and methods[0].func.attr == 'reshape' and isinstance(b, ast.Attribute) and b.attr in ('values', 'data')
              and flow.canon(b.value) == ('param', da))
        ctx.check('R03.2', ok, "the output data is data_array.values.reshape(...) and nothing else", wd, item,
                  construct=f"data={norm_text(flow.resolve(data))}")
        shape_expr = methods[0].args[0] if ok and methods[0].args else None
        if ok:
            order_kw = kwarg(methods[0], 'order')
            ctx.check('R03.1', (order_kw is None or const_value(order_kw, None) == 'C') and len(methods[0].args) == 1, "reshape in C order", wd, methods[0],
                      construct=f"reshape order={norm_text(order_kw) if order_kw is not None else 'default'}")
        sd = as_splice(ctx, wd, dims) if dims is not None else None
        ss = as_splice(ctx, wd, shape_expr) if shape_expr is not None else None
        ctx.check('R03.1', sd is not None and ss is not None, "new dims and new shape are both splice(t, i, v) = t[:i] + v + t[i+1:]", wd, item,
                  construct=f"dims={norm_text(flow.resolve(dims)) if dims is not None else '?'}; shape={norm_text(flow.resolve(shape_expr)) if shape_expr is not None else '?'}")
        if sd is not None and ss is not None:
            ctx.check('R03.1', flow.canon(sd[0]) == ('attr', ('param', da), 'dims') and flow.canon(ss[0]) == ('attr', ('param', da), 'shape'),
                      "the tuples spliced are data_array.dims and data_array.shape", wd, item, construct=f"spliced: {norm_text(sd[0])}, {norm_text(ss[0])}")
            ctx.check('R03.1', flow.canon(sd[1]) == flow.canon(ss[1]), "dims and shape are spliced at the same index", wd, item,
                      construct=f"splice index dims={norm_text(flow.resolve(sd[1]))} shape={norm_text(flow.resolve(ss[1]))}")
            idx = flow.resolve(sd[1])
            ok_idx = (isinstance(idx, ast.Call) and isinstance(idx.func, ast.Attribute) and idx.func.attr == 'index'
                      and flow.canon(idx.func.value) == ('attr', ('param', da), 'dims') and len(idx.args) == 1
                      and flow.canon(idx.args[0]) == ('param', 'linear_dimension'))
            ctx.check('R03.1', ok_idx, "the splice index is the position of the linear dimension in data_array.dims", wd, item,
                      construct=f"splice index = {norm_text(idx)}")
            ctx.check('R03.1', flow.canon(sd[2]) == ('param', 'dimensions') and flow.canon(ss[2]) == ('param', 'sizes'),
                      "dims receive `dimensions` and shape receives `sizes`, both as given", wd, item,
                      construct=f"spliced values dims<-{norm_text(sd[2])} shape<-{norm_text(ss[2])}")

        sp = ctx.func(f"{UTILS}.splice_tuple")
        flow = ctx.flow(sp)
        t_p, i_p, v_p = sp.params[:3]
        rets = sp.returns()
        ctx.need('R03.1', len(rets) == 1, f"expected one return", sp)
        got = as_splice(ctx, sp, rets[0].value, allow_call=False)
        ok_sp = got is not None and flow.canon(got[0]) == ('param', t_p) and flow.canon(got[1]) == ('param', i_p) and flow.canon(got[2]) == ('param', v_p)
        ctx.check('R03.1', ok_sp, "splice_tuple(t, i, v) = t[:i] + v + t[i+1:]", sp, rets[0])

    # ------------------------------------------------------------------ DimensionConvention.ravel / wind / get_grid_kind
    with ctx.section('DimensionConvention.ravel / wind / get_grid_kind'):
        for fi in p.implementations(base, 'ravel'):
            flow = ctx.flow(fi)
            cfg = ctx.cfg(fi)
            da = fi.params[1]
            calls = [c for c in calls_in(fi) if callee(ctx, fi, c) == f"{UTILS}.ravel_dimensions"]
            ctx.need('R03.4', len(calls) == 1, f"expected one utils.ravel_dimensions call", fi)
            call = calls[0]
            gk = [c for c in method_calls(fi, 'get_grid_kind') if flow.canon(c.func.value) == ('param', 'self')]
            ok_gk = len(gk) == 1 and len(gk[0].args) == 1 and flow.canon(gk[0].args[0]) == ('param', da)
            ctx.check('R03.4', ok_gk, "ravel determines the grid kind of the array itself (which refuses unknown grids)", fi,
                      gk[0] if gk else fi.node, construct='get_grid_kind(data_array) call: ' + ('present' if ok_gk else 'absent'))
            layers, core = peel_sequence(flow, call.args[1] if len(call.args) > 1 else kwarg(call, 'dimensions'))
            ok_dims = (ok_gk and all(l[0] == 'conv' for l in layers) and isinstance(core, ast.Subscript)
                       and flow.canon(core.value) == ('attr', ('param', 'self'), 'grid_dimensions')
                       and flow.canon(core.slice) == flow.canon(gk[0]))
            ctx.check('R03.1', ok_dims, "the flattened dimensions are self.grid_dimensions[<kind of this array>], in order", fi, call,
                      construct=f"dimensions={norm_text(core)}")
            ctx.check('R03.1', flow.canon(call.args[0]) == ('param', da), "the array flattened is the argument itself", fi, call,
                      construct=f"array={norm_text(call.args[0])}")
            ld = kwarg(call, 'linear_dimension') or (call.args[2] if len(call.args) > 2 else None)
            ctx.check('R03.1', ld is not None and flow.canon(ld) == ('param', 'linear_dimension'),
                      "the caller's linear dimension name is passed on", fi, call,
                      construct=f"linear_dimension={norm_text(ld) if ld is not None else 'dropped'}")
            for r in fi.returns():
                ctx.check('R03.2', flow.resolve(r.value) is call, "ravel returns the flattened array unchanged", fi, r)

        for fi in p.implementations(base, 'get_grid_kind'):
            flow = ctx.flow(fi)
            cfg = ctx.cfg(fi)
            exits = cfg.exits()
            falls = [n for k, n in exits if k == 'fall']
            raises = [n for k, n in exits if k == 'raise']
            rets = [n for k, n in exits if k == 'return']
            ctx.check('R03.4', not falls and len(raises) >= 1, "the only exit without a matching grid is a raise", fi,
                      falls[0] if falls else fi.node, construct=f"exits: {len(rets)} return, {len(raises)} raise, {len(falls)} fall-through")
            from .common import path_conditions
            ok_ret = len(rets) >= 1
            ok_loop = False
            loops = [n for n in walk_no_nested(fi.node) if isinstance(n, ast.For)]
            for r in rets:
                good = False
                for t, pol in path_conditions(fi, r):
                    if pol and isinstance(t, ast.Call) and isinstance(t.func, ast.Attribute) and t.func.attr == 'issuperset' and len(t.args) == 1:
                        recv = flow.resolve(t.func.value)
                        if isinstance(recv, ast.Call) and dotted(recv.func) in ('set', 'frozenset') and recv.args \
                                and flow.canon(recv.args[0]) == ('attr', ('param', fi.params[1]), 'dims'):
                            good = True
                            # kind returned and dimensions tested come from the same item of grid_dimensions
                            for lp in loops:
                                it = flow.resolve(lp.iter)
                                if isinstance(it, ast.Call) and isinstance(it.func, ast.Attribute) and it.func.attr == 'items' \
                                        and flow.canon(it.func.value) == ('attr', ('param', 'self'), 'grid_dimensions') \
                                        and isinstance(lp.target, ast.Tuple) and len(lp.target.elts) == 2 \
                                        and all(isinstance(e, ast.Name) for e in lp.target.elts) \
                                        and isinstance(r.value, ast.Name) and r.value.id == lp.target.elts[0].id \
                                        and isinstance(t.args[0], ast.Name) and t.args[0].id == lp.target.elts[1].id:
                                    ok_loop = True
                    if pol and isinstance(t, ast.Compare) and len(t.ops) == 1 and isinstance(t.ops[0], (ast.LtE, ast.GtE)):
                        # set(dimensions) <= set(data_array.dims)  /  set(dims) >= set(dimensions)
                        small, big = (t.left, t.comparators[0]) if isinstance(t.ops[0], ast.LtE) else (t.comparators[0], t.left)
                        bg = flow.resolve(big)
                        if isinstance(bg, ast.Call) and dotted(bg.func) in ('set', 'frozenset') and bg.args \
                                and flow.canon(bg.args[0]) == ('attr', ('param', fi.params[1]), 'dims'):
                            good = True
                            for lp in loops:
                                if isinstance(lp.target, ast.Tuple) and len(lp.target.elts) == 2 and isinstance(r.value, ast.Name) \
                                        and isinstance(lp.target.elts[0], ast.Name) and r.value.id == lp.target.elts[0].id \
                                        and any(isinstance(n, ast.Name) and isinstance(lp.target.elts[1], ast.Name) and n.id == lp.target.elts[1].id for n in ast.walk(small)):
                                    ok_loop = True
                ok_ret = ok_ret and good
            ctx.check('R03.4', ok_ret, "a kind is returned only when set(data_array.dims) is a superset of that kind's dimensions", fi,
                      rets[0] if rets else fi.node, construct='guard of `return kind`')
            ctx.check('R03.4', ok_loop, "kind and dimensions tested are the same item of grid_dimensions", fi, loops[0] if loops else fi.node,
                      construct='for kind, dimensions in self.grid_dimensions.items(): test dimensions, return kind')

        for fi in p.implementations(base, 'wind'):
            flow = ctx.flow(fi)
            da = fi.params[1]
            calls = [c for c in calls_in(fi) if callee(ctx, fi, c) == f"{UTILS}.wind_dimension"]
            ctx.need('R03.1', len(calls) == 1, f"expected one utils.wind_dimension call", fi)
            call = calls[0]
            dims = arg_or_kw(call, 1, 'dimensions')
            sizes = arg_or_kw(call, 2, 'sizes')
            ld = kwarg(call, 'linear_dimension')
            ctx.need('R03.1', dims is not None and sizes is not None and ld is not None, f"wind_dimension arguments missing", fi)
            d_layers, d_core = peel_sequence(flow, dims)
            kind_c = None
            ok_d = (all(l[0] == 'conv' for l in d_layers) and isinstance(d_core, ast.Subscript)
                    and flow.canon(d_core.value) == ('attr', ('param', 'self'), 'grid_dimensions'))
            if ok_d:
                kind_c = flow.canon(d_core.slice)
                ok_d = kind_c == ('param', 'grid_kind') or (kind_c[0] == 'phi' and ('param', 'grid_kind') in kind_c)
            ctx.check('R03.1', ok_d, "the wound dimensions are self.grid_dimensions[<requested kind>] in order", fi, call,
                      construct=f"dimensions={norm_text(d_core)}")
            s_layers, s_core = peel_sequence(flow, sizes)
            comp = [l for l in s_layers if l[0] == 'comp']
            ok_s = False
            if len(comp) == 1 and all(l[0] in ('comp', 'conv') for l in s_layers) and isinstance(comp[0][2], ast.Name):
                elt = comp[0][1]
                ok_s = (isinstance(elt, ast.Subscript) and isinstance(elt.slice, ast.Name) and elt.slice.id == comp[0][2].id
                        and dotted(elt.value) == 'self.dataset.sizes' and flow.canon(s_core) == flow.canon(d_core))
            if not ok_s and all(l[0] == 'conv' for l in s_layers) and isinstance(s_core, ast.Subscript) \
                    and flow.canon(s_core.value) == ('attr', ('param', 'self'), 'grid_shape') and isinstance(d_core, ast.Subscript):
                # the convention's own shape of the same kind (R01.2 ties grid_shape to grid_dimensions, kind by kind and in order)
                ok_s = flow.canon(s_core.slice) == flow.canon(d_core.slice)
            from_shape = ok_s and isinstance(s_core, ast.Subscript) and flow.canon(s_core.value) == ('attr', ('param', 'self'), 'grid_shape')
            ctx.check('R03.1', from_shape, "the sizes are the convention's own grid_shape of that kind, not a lookup in dataset.sizes: a mesh may name an edge dimension that no variable "
                      "is defined on (the topology derives its length; select_variables produces such datasets) and winding edge data must still work", fi, call,
                      construct=f"sizes={norm_text(flow.resolve(sizes))}")
            ctx.check('R03.1', ok_s, "sizes = [dataset.sizes[d] for d in <the same dimensions>] in order, or the convention's grid_shape of the same kind", fi, call,
                      construct=f"sizes={norm_text(flow.resolve(sizes))}")
            ctx.check('R03.1', flow.canon(call.args[0] if call.args else kwarg(call, 'data_array')) == ('param', da),
                      "the array wound is the argument itself", fi, call, construct='array argument')
            # R03.5
            c = flow.canon(ld)
            want_axis = ('sub', ('attr', ('param', da), 'dims'), ('param', 'axis'))
            want_last = ('sub', ('attr', ('param', da), 'dims'), ('const', '-1'))
            alts = set(c[1:]) if c[0] == 'phi' else {c}
            ok5 = alts == {want_axis, want_last, ('param', 'linear_dimension')}
            # guards
            assigns = [n for n in walk_no_nested(fi.node) if isinstance(n, ast.Assign)
                       and any(isinstance(t, ast.Name) and t.id == 'linear_dimension' for t in n.targets)]
            from .common import known_none
            guard_ok = len(assigns) == 2
            for a in assigns:
                cv = flow.canon(a.value)
                axis_none = known_none(fi, a, lambda e: isinstance(e, ast.Name) and e.id == 'axis')
                name_none = known_none(fi, a, lambda e: isinstance(e, ast.Name) and e.id == 'linear_dimension')
                if cv == want_axis:
                    guard_ok = guard_ok and axis_none is False
                elif cv == want_last:
                    guard_ok = guard_ok and axis_none is True and name_none is True
                else:
                    guard_ok = False
            # the same question asked of the defaulting prologue as a whole: what is the linear dimension for each combination
            # of `axis` / `linear_dimension` being given or not
            from .common import none_case_values
            cases = none_case_values(fi, ['axis', 'linear_dimension'], ld.id if isinstance(ld, ast.Name) else 'linear_dimension', call)
            if cases is not None:
                want = {(True, True): f"{da}.dims[-1]", (True, False): 'linear_dimension', (False, True): f"{da}.dims[axis]", (False, False): f"{da}.dims[axis]"}
                by_cases = cases == want
                if by_cases:
                    ok5 = guard_ok = True
                elif ok5 and guard_ok:
                    pass
            ctx.check('R03.5', ok5 and guard_ok, "axis wins, then the given name, then the last dimension", fi, assigns[0] if assigns else call,
                      construct=f"linear dimension choices: {sorted(norm_text(a) for a in assigns)}")
            for r in fi.returns():
                ctx.check('R03.2', flow.resolve(r.value) is call, "wind returns the wound array unchanged", fi, r)



# --------------------------------------------------------------------------- checker self-test
from ..variants import V  # noqa: E402

_B = 'src/emsarray/conventions/_base.py'
_U = 'src/emsarray/utils.py'
VARIANTS = [
    V('C03', 'reshape-order-F', _U, "    new_data = data_array.values.reshape(new_shape)\n    existing_dims", "    new_data = data_array.values.reshape(new_shape, order='F')\n    existing_dims", 'R03.1'),
    V('C03', 'append-reversed', _U, "    new_order = [dim for dim in data_array.dims if dim not in dimensions] + dimensions", "    new_order = [dim for dim in data_array.dims if dim not in dimensions] + dimensions[::-1]", 'R03.3'),
    V('C03', 'others-sorted', _U, "    new_order = [dim for dim in data_array.dims if dim not in dimensions] + dimensions", "    new_order = sorted([dim for dim in data_array.dims if dim not in dimensions], key=str) + dimensions", 'R03.3'),
    V('C03', 'merge-one-too-many', _U, "    new_shape = data_array.shape[:-len(dimensions)] + (linear_size,)", "    new_shape = data_array.shape[:-len(dimensions) - 1] + (-1,)", 'R03.1'),
    V('C03', 'values-scaled', _U, "    new_data = data_array.values.reshape(new_shape)\n    existing_dims", "    new_data = data_array.values.reshape(new_shape) * 1.0\n    existing_dims", 'R03.2'),
    V('C03', 'values-cast', _U, "    new_data = data_array.values.reshape(new_shape)\n    return xarray.DataArray(data=new_data, dims=new_dims)", "    new_data = data_array.values.astype(float).reshape(new_shape)\n    return xarray.DataArray(data=new_data, dims=new_dims)", 'R03.2'),
    V('C03', 'splice-different-index', _U, "    new_shape = splice_tuple(data_array.shape, dimension_index, sizes)", "    new_shape = splice_tuple(data_array.shape, len(data_array.shape) - 1, sizes)", 'R03.1'),
    V('C03', 'splice-off-by-one', _U, "    return t[:index] + tuple(values) + t[index:][1:]", "    return t[:index] + tuple(values) + t[index:][2:]", 'R03.1'),
    V('C03', 'colliding-linear-name-accepted', 'src/emsarray/utils.py', "    elif linear_dimension in existing_dims:\n", "    elif linear_dimension in ():\n", 'R03.1'),
    V('C03', 'merged-length-inferred', 'src/emsarray/utils.py', "    new_shape = data_array.shape[:-len(dimensions)] + (linear_size,)", "    new_shape = data_array.shape[:-len(dimensions)] + (-1,)", 'R03.1'),
    V('C03', 'merged-length-one-dimension-short', 'src/emsarray/utils.py', "    linear_size = int(numpy.prod(data_array.shape[-len(dimensions):]))", "    linear_size = int(numpy.prod(data_array.shape[-len(dimensions) + 1:]))", 'R03.1'),
    V('C03', 'sizes-reversed', _B, "        sizes = list(self.grid_shape[grid_kind])", "        sizes = list(reversed(self.grid_shape[grid_kind]))", 'R03.1'),
    V('C03', 'sizes-of-default-kind', _B, "        sizes = list(self.grid_shape[grid_kind])", "        sizes = list(self.grid_shape[self.default_grid_kind])", 'R03.1'),
    V('C03', 'sizes-looked-up-in-the-dataset', _B, "        sizes = list(self.grid_shape[grid_kind])", "        sizes = [self.dataset.sizes[dim] for dim in dimensions]", 'R03.1'),
    V('C03', 'benign-sizes-as-tuple', _B, "        sizes = list(self.grid_shape[grid_kind])", "        sizes = tuple(self.grid_shape[grid_kind])", None),
    V('C03', 'wind-default-first-dim', _B, "            linear_dimension = data_array.dims[-1]", "            linear_dimension = data_array.dims[0]", 'R03.5'),
    V('C03', 'wind-name-beats-axis', _B, "        if axis is not None:\n            linear_dimension = data_array.dims[axis]\n        elif linear_dimension is None:", "        if axis is not None and linear_dimension is None:\n            linear_dimension = data_array.dims[axis]\n        elif linear_dimension is None:", 'R03.5'),
    V('C03', 'grid-kind-falls-back', _B, "        raise ValueError(\"Unknown grid kind\")", "        return self.default_grid_kind", 'R03.4'),
    V('C03', 'grid-kind-any-overlap', _B, "            if actual_dimensions.issuperset(dimensions):", "            if actual_dimensions.intersection(dimensions):", 'R03.4'),
    V('C03', 'ravel-default-kind-dims', _B, "        dimensions = self.grid_dimensions[kind]\n        return utils.ravel_dimensions(", "        dimensions = self.grid_dimensions[self.default_grid_kind]\n        return utils.ravel_dimensions(", 'R03.1'),
    V('C03', 'missing-dims-not-refused', _U, "    if not current_dims.issuperset(dimensions):\n        missing = sorted(set(dimensions) - set(current_dims), key=str)\n        raise ValueError(f\"DataArray does not contain dimensions {missing!r}\")\n", "", 'R03.4'),
    V('C03', 'unused-dimension-unchecked', _U, "    if prefix not in existing_dims:\n        return prefix\n", "    if prefix:\n        return prefix\n", 'R03.6'),
    V('C03', 'linear-name-dropped', _B, "            data_array, list(dimensions),\n            linear_dimension=linear_dimension)", "            data_array, list(dimensions))", 'R03.1'),
    V('C03', 'wind-refuses-existing-names', _U, "    dimension_index = data_array.dims.index(linear_dimension)", "    if set(data_array.dims).intersection(dimensions):\n        raise ValueError('DataArray already contains dimensions')\n    dimension_index = data_array.dims.index(linear_dimension)", 'R03.7'),
    # benign
    V('C03', 'benign-tuple-dims', _B, "            data_array, list(dimensions),\n            linear_dimension=linear_dimension)", "            data_array, list(tuple(dimensions)),\n            linear_dimension=linear_dimension)", None),
    V('C03', 'benign-splice-form', _U, "    return t[:index] + tuple(values) + t[index:][1:]", "    return t[:index] + tuple(values) + t[index + 1:]", None),
    V('C03', 'benign-explicit-C', _U, "    new_data = data_array.values.reshape(new_shape)\n    existing_dims", "    new_data = data_array.values.reshape(new_shape, order='C')\n    existing_dims", None),
]
