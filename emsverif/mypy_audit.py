"""Independent audit of call resolution (engine E2) with mypy as a library.

mypy 2.x ships in the repository's own environment (/venv).  It is *not* the deciding
step of any rule: it type-checks src/emsarray once (follow_imports='skip', about 7 s) and
exports, for every call expression, the callee it resolved.  The analyser's own resolution
(`Program.qualify`, used by every rule through `callee()`) is compared with it on the
functions a property actually analysed:

  agree       both resolve the call to the same emsarray function / method
  ours only   we resolve into emsarray and mypy cannot (an `Any` receiver such as
              `dataset.ems`, which we type through the accessor registration, or a function
              local to another function)
  mypy only   mypy resolves into emsarray and we do not (we are less precise; rules that need
              the site must find it another way - listed in the evidence)
  disagree    both resolve into emsarray, to different targets: the rules at that site cannot
              be trusted -> ANALYSIS-ERROR

Run as a module it prints the call map as JSON and leaves with os._exit (mypy's teardown
takes seconds and nothing else needs it).
"""
from __future__ import annotations

import ast
import json
import os
import subprocess
import sys
from typing import Optional

PY = '/venv/bin/python'


def _export(repo: str) -> dict:
    from mypy import build
    from mypy.find_sources import create_source_list
    from mypy.nodes import CallExpr, MemberExpr, Node, RefExpr
    from mypy.options import Options
    from mypy.types import AnyType, CallableType, Instance, TypeType, get_proper_type

    os.chdir(repo)
    opts = Options()
    opts.preserve_asts = True
    opts.export_types = True
    opts.incremental = False
    opts.cache_dir = os.devnull
    opts.follow_imports = 'skip'
    opts.ignore_missing_imports = True
    opts.mypy_path = ['src']
    opts.namespace_packages = True
    opts.explicit_package_bases = True
    res = build.build(create_source_list(['src/emsarray'], opts), opts)
    skip = {'info', 'type', 'unanalyzed_type', 'analyzed', 'type_guard', 'defs_backup', 'names', 'alias_tvars', 'target', 'node',
            'imports', 'impl', 'original_def', 'definition', 'type_annotation'}
    out: dict = {}
    for modname, tree in res.files.items():
        if not modname.startswith('emsarray'):
            continue
        imported = set()
        calls = {}
        seen: set[int] = set()
        stack = [tree]
        while stack:
            o = stack.pop()
            if id(o) in seen:
                continue
            seen.add(id(o))
            if isinstance(o, CallExpr):
                c = o.callee
                name = None
                if isinstance(c, RefExpr) and c.fullname:
                    name = c.fullname
                if name is None and isinstance(c, MemberExpr):
                    t = res.types.get(c.expr)
                    t = get_proper_type(t) if t is not None else None
                    if isinstance(t, TypeType):
                        t = get_proper_type(t.item)
                    if isinstance(t, CallableType) and t.is_type_obj():
                        t = get_proper_type(t.ret_type)
                    if isinstance(t, Instance):
                        for base in t.type.mro:
                            if c.name in base.names:
                                name = base.fullname + '.' + c.name
                                break
                        else:
                            name = t.type.fullname + '.?' + c.name
                    elif isinstance(t, AnyType):
                        name = 'Any.' + c.name
                calls[f"{o.line}:{o.column}"] = name
            for attr in dir(type(o)):
                if attr.startswith('_') or attr in skip:
                    continue
                try:
                    v = getattr(o, attr)
                except Exception:
                    continue
                if isinstance(v, Node):
                    stack.append(v)
                elif isinstance(v, (list, tuple)):
                    for x in v:
                        if isinstance(x, Node):
                            stack.append(x)
                        elif isinstance(x, (list, tuple)):
                            stack.extend(y for y in x if isinstance(y, Node))
        out[modname] = calls
    return {'calls': out, 'errors': len(res.errors), 'files': len(res.files)}


def export(repo: str, timeout: int = 300) -> Optional[dict]:
    """Run the export in a child process; None when mypy is not available."""
    try:
        r = subprocess.run([PY, '-m', 'emsverif.mypy_audit', str(repo)], capture_output=True, text=True, timeout=timeout,
                           cwd=os.path.dirname(os.path.dirname(os.path.abspath(__file__))))
    except (OSError, subprocess.TimeoutExpired):
        return None
    if r.returncode != 0 or not r.stdout.strip():
        return None
    try:
        return json.loads(r.stdout[r.stdout.index('{'):])
    except ValueError:
        return None


def compare(program, functions: set[str], exported: dict) -> dict:
    """Compare our callee resolution with mypy's on the given functions (qualnames)."""
    from .inline import real_line
    from .model import TypeEnv
    agree = ours = theirs = 0
    disagree, theirs_list = [], []
    sites = 0
    for q in sorted(functions):
        fi = program.functions.get(q)
        if fi is None:
            continue
        calls = exported['calls'].get(fi.module.name, {})
        env = TypeEnv(program, fi, fi.cls)
        module_vars = set(fi.module.assigns)
        for n in ast.walk(fi.node):
            if not isinstance(n, ast.Call):
                continue
            mine = program.qualify(n.func, fi, env)
            m = calls.get(f"{real_line(n.lineno)}:{n.col_offset}")
            sites += 1
            mine_in = mine is not None and mine.startswith('emsarray.')
            # a method of a module level object (logger.info, registry.add_convention, bounds_re.fullmatch) is named
            # through the variable by us; that is not a resolution into an emsarray function
            if mine_in:
                rest = mine[len(fi.module.name) + 1:] if mine.startswith(fi.module.name + '.') else ''
                if rest.split('.')[0] in module_vars and '.' in rest and program.functions.get(mine) is None and program.classes.get(mine) is None:
                    mine_in = False
            m_in = m is not None and m.startswith('emsarray.')
            if m_in:
                # with follow_imports='skip' a name imported from a third party module is reported as <this module>.<name>
                tail = m[len(fi.module.name) + 1:] if m.startswith(fi.module.name + '.') else None
                if tail is not None and '.' not in tail and tail in fi.module.imports and not (fi.module.imports[tail] or '').startswith('emsarray'):
                    m_in = False
                elif tail is not None and program.functions.get(m) is None and program.classes.get(m) is None \
                        and program.functions.get(program.canonical(m)) is None and program.classes.get(program.canonical(m)) is None:
                    # a class-level import or alias (Convention.PlateCarree): not a function of the package
                    m_in = False
            if not mine_in and not m_in:
                continue
            if mine_in and m_in:
                a, b = program.canonical(mine), program.canonical(m)
                if a == b or a.replace('.<locals>', '') == b or a.split('.<locals>.')[-1] == b.rsplit('.', 1)[-1] and '<locals>' in a:
                    agree += 1
                elif program.classes.get(a) is not None and b in (a + '.__init__', a):
                    agree += 1
                else:
                    disagree.append(f"{fi.where(n)}: `{ast.unparse(n.func)[:60]}` is {a} for the analyser, {b} for mypy")
            elif mine_in:
                ours += 1
            else:
                theirs += 1
                theirs_list.append(f"{fi.short}:{real_line(n.lineno)} `{ast.unparse(n.func)[:50]}` -> {m}")
    return {'audit_call_sites': sites, 'audit_agree': agree, 'audit_ours_only': ours, 'audit_mypy_only': theirs,
            'audit_mypy_only_sites': theirs_list[:40], 'audit_disagree': disagree,
            'audit_mypy_errors_reported': exported.get('errors'), 'audit_tool': 'mypy (library, follow_imports=skip) from the repository environment'}


if __name__ == '__main__':
    data = _export(sys.argv[1])
    sys.stdout.write(json.dumps(data))
    sys.stdout.flush()
    os._exit(0)
