"""E10 - symbolic evaluation of small functions over tuples of symbols.

Values: an *atom* ('sym', name) / ('const', text), or a Python tuple of values (a
symbolic tuple of known length).  The evaluator supports exactly what index packing
code needs: parameters, constant subscripts and slices, tuple displays with `*`,
cast(), tuple()/list(), and straight-line assignments followed by a return.
Anything else raises Unsupported, which the caller turns into an ANALYSIS-ERROR.
"""
from __future__ import annotations

import ast
from typing import Optional

from .model import FuncInfo, const_value, dotted, unparse


class Unsupported(Exception):
    pass


def sym(name: str):
    return ('sym', name)


def is_atom(v) -> bool:
    return isinstance(v, tuple) and len(v) == 2 and v[0] in ('sym', 'const') and isinstance(v[1], str)


def show(v) -> str:
    if is_atom(v):
        return v[1]
    if isinstance(v, tuple):
        return '(' + ', '.join(show(x) for x in v) + (',' if len(v) == 1 else '') + ')'
    return repr(v)


class TupleEval:
    def __init__(self, fi: FuncInfo, args: dict):
        self.fi = fi
        self.env = dict(args)

    def run(self):
        for st in self.fi.body:
            if isinstance(st, ast.Assign) and len(st.targets) == 1:
                self._assign(st.targets[0], self.eval(st.value))
            elif isinstance(st, ast.AnnAssign) and st.value is not None:
                self._assign(st.target, self.eval(st.value))
            elif isinstance(st, ast.Return):
                if st.value is None:
                    raise Unsupported("bare return")
                return self.eval(st.value)
            elif isinstance(st, ast.Expr) and isinstance(st.value, ast.Constant):
                continue
            elif isinstance(st, ast.Pass):
                continue
            else:
                raise Unsupported(f"statement `{unparse(st)[:60]}`")
        raise Unsupported("no return")

    def _assign(self, target, value):
        if isinstance(target, ast.Name):
            self.env[target.id] = value
        elif isinstance(target, (ast.Tuple, ast.List)):
            if is_atom(value) or not isinstance(value, tuple):
                raise Unsupported("unpacking a non-tuple")
            stars = [i for i, e in enumerate(target.elts) if isinstance(e, ast.Starred)]
            if not stars:
                if len(target.elts) != len(value):
                    raise Unsupported("unpack arity mismatch")
                for t, v in zip(target.elts, value):
                    self._assign(t, v)
            else:
                i = stars[0]
                after = len(target.elts) - i - 1
                for t, v in zip(target.elts[:i], value[:i]):
                    self._assign(t, v)
                self._assign(target.elts[i].value, tuple(value[i:len(value) - after]))
                for t, v in zip(target.elts[i + 1:], value[len(value) - after:]):
                    self._assign(t, v)
        else:
            raise Unsupported("assignment target")

    def eval(self, e: ast.AST):
        if isinstance(e, ast.Name):
            if e.id in self.env:
                return self.env[e.id]
            return ('const', e.id)
        if isinstance(e, ast.Constant):
            return ('const', repr(e.value))
        if isinstance(e, ast.Attribute):
            d = dotted(e)
            if d is None:
                raise Unsupported(f"attribute `{unparse(e)}`")
            return ('const', d)
        if isinstance(e, (ast.Tuple, ast.List)):
            out = []
            for elt in e.elts:
                if isinstance(elt, ast.Starred):
                    v = self.eval(elt.value)
                    if is_atom(v) or not isinstance(v, tuple):
                        raise Unsupported("star of a non-tuple")
                    out.extend(v)
                else:
                    out.append(self.eval(elt))
            return tuple(out)
        if isinstance(e, ast.Subscript):
            base = self.eval(e.value)
            if is_atom(base) or not isinstance(base, tuple):
                raise Unsupported(f"subscript of a non-tuple `{unparse(e)}`")
            sl = e.slice
            if isinstance(sl, ast.Slice):
                lo = const_value(sl.lower, None) if sl.lower is not None else None
                hi = const_value(sl.upper, None) if sl.upper is not None else None
                st = const_value(sl.step, None) if sl.step is not None else None
                for node, val in ((sl.lower, lo), (sl.upper, hi), (sl.step, st)):
                    if node is not None and not isinstance(val, int):
                        raise Unsupported("non-constant slice bound")
                return tuple(base[slice(lo, hi, st)])
            idx = const_value(sl, None)
            if not isinstance(idx, int):
                raise Unsupported("non-constant subscript")
            try:
                return base[idx]
            except IndexError:
                raise Unsupported(f"index {idx} out of range for arity {len(base)}")
        if isinstance(e, ast.Call):
            fn = dotted(e.func) or ''
            short = fn.rsplit('.', 1)[-1]
            if short == 'cast' and len(e.args) == 2:
                return self.eval(e.args[1])
            if fn in ('tuple', 'list') and len(e.args) == 1 and not e.keywords:
                v = self.eval(e.args[0])
                if is_atom(v):
                    raise Unsupported("tuple() of an atom")
                return tuple(v)
            if fn == 'int' and len(e.args) == 1:
                return self.eval(e.args[0])
            if fn == 'reversed' and len(e.args) == 1:
                v = self.eval(e.args[0])
                if is_atom(v):
                    raise Unsupported("reversed() of an atom")
                return tuple(reversed(v))
            raise Unsupported(f"call `{unparse(e)[:50]}`")
        if isinstance(e, ast.BinOp) and isinstance(e.op, ast.Add):
            a, b = self.eval(e.left), self.eval(e.right)
            if not is_atom(a) and not is_atom(b) and isinstance(a, tuple) and isinstance(b, tuple):
                return a + b
            return ('const', f"({show(a)} + {show(b)})")
        if isinstance(e, ast.BinOp):
            return ('const', f"({show(self.eval(e.left))} {type(e.op).__name__} {show(self.eval(e.right))})")
        raise Unsupported(f"expression `{unparse(e)[:50]}`")
