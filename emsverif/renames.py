"""Private helpers under another name or in another place.

The rules anchor on functions by qualified name.  Public names are the interface of the library: when one disappears the
analysis cannot go on and says so (ANALYSIS-ERROR, exit 2).  Private names (leading underscore) are the maintainers' to
choose: `_find_ocean_floor_indexes` -> `_find_floor_indexes`, `_split_coord` -> `_split_coordinate_names`, a helper
moved to a sibling module.  This module recognises such a change against the reviewed tree
(`reference_details.json`, written by tools/gen_reference.py: parameters and callers of every function of the reviewed
tree) and reads the new name as the old one, so that the rules - and the inliner, which would otherwise take the "new"
helper for an extracted block - see the function they know:

* **renamed**: a private function of the reviewed tree is gone, and in the same module / class there is exactly one
  function the reviewed tree did not have, with the same number of parameters, that is called from at least one of the
  places the old one was called from.  Every occurrence of the new name in the package (definition, calls, attribute
  reads, imports) is read as the old name.
* **moved**: a private module-level function of the reviewed tree is gone from its module and a function of the same
  name, unknown to the reviewed tree, exists in exactly one other module of the package: the old qualified name is an
  alias of the new one.

Nothing is guessed beyond that: two candidates, a changed arity or no shared caller leave the anchor missing.
What was recognised is reported in the evidence (`coverage.private_renames`)."""
from __future__ import annotations

import ast
import json
from pathlib import Path
from typing import Optional

DETAILS = Path(__file__).resolve().parent / 'reference_details.json'


def load_details() -> Optional[dict]:
    if not DETAILS.exists():
        return None
    return json.loads(DETAILS.read_text())


def _simple(q: str) -> str:
    return q.rsplit('.', 1)[-1]


def _is_private(name: str) -> bool:
    return name.startswith('_') and not (name.startswith('__') and name.endswith('__'))


def callers_by_simple_name(program) -> dict[str, set[str]]:
    """simple callee name -> qualified names of the top-level functions / methods whose body mentions it as a call or attribute read."""
    out: dict[str, set[str]] = {}
    for q, fi in program.functions.items():
        top = fi
        while top.parent is not None:
            top = top.parent
        for n in ast.walk(fi.node):
            name = None
            if isinstance(n, ast.Call):
                f = n.func
                name = f.id if isinstance(f, ast.Name) else (f.attr if isinstance(f, ast.Attribute) else None)
            elif isinstance(n, ast.Attribute) and isinstance(n.ctx, ast.Load):
                name = n.attr       # properties are read, not called
            if name:
                out.setdefault(name, set()).add(top.qualname)
    return out


def param_count(node: ast.FunctionDef) -> int:
    a = node.args
    return len(a.posonlyargs) + len(a.args) + len(a.kwonlyargs) + (1 if a.vararg else 0) + (1 if a.kwarg else 0)


def detect(program, details: dict) -> tuple[dict[str, str], dict[str, str]]:
    """(renames: new simple name -> old simple name keyed by container, moves: old qualname -> new qualname)."""
    details = {k: v for k, v in details.items() if not k.startswith('__')}
    ref_names = set(details)
    now_callers = callers_by_simple_name(program)
    renames: dict[tuple[str, str], str] = {}
    moves: dict[str, str] = {}
    top_now = {q: fi for q, fi in program.functions.items() if fi.parent is None}
    for old_q, info in sorted(details.items()):
        old = _simple(old_q)
        if old_q in top_now or not _is_private(old) or info.get('nested'):
            continue
        container = old_q.rsplit('.', 1)[0]
        # moved: same simple name, one other place, unknown to the reviewed tree
        same_name = [q for q in top_now if _simple(q) == old and q not in ref_names]
        if len(same_name) == 1 and (container in program.modules or container.rsplit('.', 1)[0] in program.modules):
            # a module-level helper in another module, or a method that did not use `self` made a module-level function (or the reverse)
            moves[old_q] = same_name[0]
            continue
        if same_name:
            continue
        cands = []
        for q, fi in top_now.items():
            if q in ref_names or q.rsplit('.', 1)[0] != container or not _is_private(_simple(q)):
                continue
            if param_count(fi.node) != info.get('params'):
                continue
            shared = now_callers.get(_simple(q), set()) & set(info.get('callers', []))
            if shared:
                cands.append(q)
        if len(cands) == 1:
            new = _simple(cands[0])
            # the new name must not be in use for anything else the reviewed tree knew
            if not any(_simple(r) == new for r in ref_names):
                renames[(container, new)] = old
    return {f"{c}.{n}": o for (c, n), o in renames.items()}, moves


class _Renamer(ast.NodeTransformer):
    def __init__(self, table: dict[str, str]):
        self.table = table
        self.count = 0

    def visit_FunctionDef(self, node: ast.FunctionDef):
        if node.name in self.table:
            node.name = self.table[node.name]
            self.count += 1
        self.generic_visit(node)
        return node

    def visit_Name(self, node: ast.Name):
        if node.id in self.table:
            node.id = self.table[node.id]
            self.count += 1
        return node

    def visit_Attribute(self, node: ast.Attribute):
        self.generic_visit(node)
        if node.attr in self.table:
            node.attr = self.table[node.attr]
            self.count += 1
        return node

    def visit_ImportFrom(self, node: ast.ImportFrom):
        for a in node.names:
            if a.name in self.table:
                a.name = self.table[a.name]
                self.count += 1
            if a.asname in self.table:
                a.asname = self.table[a.asname]
        return node


def apply_renames(program, renames: dict[str, str]) -> int:
    """Read every occurrence of the new simple names as the old ones, in every module of the package."""
    table = {_simple(new_q): old for new_q, old in renames.items()}
    if not table:
        return 0
    total = 0
    for mod in program.modules.values():
        r = _Renamer(table)
        r.visit(mod.tree)
        total += r.count
    return total


# --------------------------------------------------------------------------- import style

class _Unqualify(ast.NodeTransformer):
    """`alias.name` -> `name` for the given (alias, name) pairs."""
    def __init__(self, pairs: set[tuple[str, str]]):
        self.pairs = pairs
        self.count = 0

    def visit_Attribute(self, node: ast.Attribute):
        self.generic_visit(node)
        if isinstance(node.value, ast.Name) and (node.value.id, node.attr) in self.pairs and isinstance(node.ctx, ast.Load):
            self.count += 1
            return ast.copy_location(ast.Name(id=node.attr, ctx=ast.Load()), node)
        return node


def _function_scopes(tree: ast.Module):
    """(function node, names bound inside it) for every function of the module, nested ones included."""
    for fn in ast.walk(tree):
        if isinstance(fn, (ast.FunctionDef, ast.AsyncFunctionDef, ast.Lambda)):
            bound = {a.arg for a in ast.walk(fn.args) if isinstance(a, ast.arg)}
            if not isinstance(fn, ast.Lambda):
                for n in ast.walk(fn):
                    if isinstance(n, ast.Name) and isinstance(n.ctx, (ast.Store, ast.Del)):
                        bound.add(n.id)
            yield fn, bound


_SHAPELY_TOP = {'Point', 'LineString', 'LinearRing', 'Polygon', 'MultiPoint', 'MultiLineString', 'MultiPolygon', 'GeometryCollection'}


def _same_object(a: str, b: str) -> bool:
    """Two qualified names of one object: shapely >= 2 exports its geometry classes at the top level as well as from shapely.geometry."""
    def canon(q):
        parts = q.split('.')
        if parts[0] == 'shapely' and parts[-1] in _SHAPELY_TOP and parts[1:-1] in ([], ['geometry']):
            return 'shapely.' + parts[-1]
        return q
    return canon(a) == canon(b)


def normalise_import_style(program, ref_imports: dict) -> list[str]:
    """The reviewed tree reached a function as `utils.name_to_data_array` (`from emsarray import utils`); a module that now imports the
    name itself (`from emsarray.utils import name_to_data_array`) and calls it bare - or the other way round, or `import numpy as np`
    for `import numpy` - is read in the reviewed tree's spelling.  Only names bound by imports at module level, and only inside
    functions that do not bind the same name themselves."""
    notes = []
    for mname, mod in program.modules.items():
        ref = ref_imports.get(mname)
        if not ref:
            continue
        ref_module_alias = {target: alias for alias, target in ref.items()}      # target -> alias in the reviewed tree
        qualify: dict[str, tuple[str, str]] = {}     # bare name -> (alias, attribute)
        unqualify: set[tuple[str, str]] = set()
        realias: dict[str, str] = {}                 # alias now -> alias then (import numpy as np -> numpy)
        for name, target in list(mod.imports.items()):
            if name in ref and ref[name] == target:
                continue
            if name in ref and _same_object(ref[name], target):
                mod.imports[name] = ref[name]
                continue
            owner, _, attr = target.rpartition('.')
            if owner and owner in ref_module_alias and name == attr and name not in ref:
                # now: from owner import attr   then: <alias>.attr
                qualify[name] = (ref_module_alias[owner], attr)
            elif target in ref_module_alias and ref_module_alias[target] != name and name not in ref:
                # now: import target as name   then: import target as <alias>
                realias[name] = ref_module_alias[target]
        for alias, target in ref.items():
            # then: from owner import attr   now: <alias of owner>.attr
            owner, _, attr = target.rpartition('.')
            if alias == attr and alias not in mod.imports:
                for a_now, t_now in mod.imports.items():
                    if t_now == owner or _same_object(f"{t_now}.{attr}", target):
                        unqualify.add((a_now, attr))
        if not (qualify or unqualify or realias):
            continue
        module_bound = {n.id for st in mod.tree.body for n in ast.walk(st) if isinstance(n, ast.Name) and isinstance(n.ctx, ast.Store)
                        and not isinstance(st, (ast.FunctionDef, ast.ClassDef))}
        changed = 0
        shadowed: dict[int, set] = {}
        for fn, bound in _function_scopes(mod.tree):
            for n in ast.walk(fn):
                shadowed.setdefault(id(n), set()).update(bound)

        class T(ast.NodeTransformer):
            def visit_Name(self_, node: ast.Name):
                nonlocal changed
                if not isinstance(node.ctx, ast.Load) or node.id in module_bound or node.id in shadowed.get(id(node), ()):
                    return node
                if node.id in qualify:
                    alias, attr = qualify[node.id]
                    changed += 1
                    return ast.copy_location(ast.Attribute(value=ast.copy_location(ast.Name(id=alias, ctx=ast.Load()), node), attr=attr, ctx=ast.Load()), node)
                if node.id in realias:
                    changed += 1
                    node.id = realias[node.id]
                return node
        T().visit(mod.tree)
        u = _Unqualify(unqualify)
        u.visit(mod.tree)
        changed += u.count
        if changed:
            for name, (alias, attr) in qualify.items():
                owner = mod.imports[name].rpartition('.')[0]
                mod.imports.setdefault(alias, owner)
            for now, then in realias.items():
                mod.imports.setdefault(then, mod.imports[now])
            for alias, attr in unqualify:
                mod.imports.setdefault(attr, ref.get(attr) or f"{mod.imports[alias]}.{attr}")
            ast.fix_missing_locations(mod.tree)
            notes.append(f"{mname}: {changed} name(s) read in the reviewed tree's import spelling")
    return notes
