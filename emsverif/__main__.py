"""Command line of the static verifier.

    python -m emsverif check C04 [--tier quick|thorough] [--repo /repo]
    python -m emsverif all [--tier ...]
    python -m emsverif selftest [C04 ...] [--jobs N]
    python -m emsverif setup
"""
from __future__ import annotations

import argparse
import importlib
import os
import sys
import time
import traceback
from pathlib import Path

from .model import AnalysisError, Program
from .report import AbortRules, Context, finish

ALL = [f"C{n:02d}" for n in range(1, 21)]


def run_property(prop: str, repo: str, tier: str, seed: int, *, write_evidence: bool = True,
                 quiet: bool = False, evidence_dir=None, replay_dir=None, program=None) -> int:
    started = time.time()
    try:
        try:
            mod = importlib.import_module(f"emsverif.rules.{prop.lower()}")
        except ModuleNotFoundError:
            print(f"ANALYSIS-ERROR property={prop} no rule module")
            return 2
        program = program if program is not None else Program(repo)
        if len(program.modules) < 37:
            raise AnalysisError(f"only {len(program.modules)} modules parsed under {program.src}, expected >= 37")
        ctx = Context(program, prop, tier)
        from .rules.common import _IN_PROGRESS
        _IN_PROGRESS.append(mod.__name__)
        try:
            mod.run(ctx)
        except AbortRules:
            pass
        finally:
            _IN_PROGRESS.pop()
        extra = None
        if tier == 'thorough':
            extra = {}
            if hasattr(mod, 'thorough'):
                extra.update(mod.thorough(ctx, seed) or {})
            from .report import load_known, match_known
            _known = load_known()
            base_clean = all(o.ok or match_known(prop, o, _known) is not None for o in ctx.obligations)
            # independent audit of call resolution on the functions this property analysed
            from . import mypy_audit
            exported = mypy_audit.export(repo) if os.environ.get('EMSVERIF_NO_MYPY') != '1' else None
            if exported is None:
                extra['audit_note'] = 'mypy audit not run (mypy not importable in /venv, or disabled)'
            else:
                extra.update(mypy_audit.compare(program, set(ctx.functions_analysed), exported))
            from .variants import seed_variants
            variants = list(getattr(mod, 'VARIANTS', [])) + seed_variants(prop)
            if variants and base_clean:
                from .variants import run_variants, summarise
                extra.update(summarise(run_variants(variants, repo, jobs=min(16, os.cpu_count() or 1))))
            elif variants:
                extra['selftest_note'] = 'checker self-test skipped: the tree under analysis already violates a rule'
        rc = finish(ctx, started, seed, extra_coverage=extra, write_evidence=write_evidence, quiet=quiet,
                    evidence_dir=evidence_dir, replay_dir=replay_dir)
        if tier == 'thorough' and extra and extra.get('audit_disagree'):
            print(f"ANALYSIS-ERROR property={prop} call resolution disagrees with mypy at {len(extra['audit_disagree'])} site(s): {extra['audit_disagree'][0]}")
            return 2
        if tier == 'thorough' and extra and extra.get('selftest_failed'):
            print(f"ANALYSIS-ERROR property={prop} checker self-test failed: {extra['selftest_failed']}")
            return 2
        return rc
    except AnalysisError as exc:
        print(f"ANALYSIS-ERROR property={prop} {exc}")
        return 2
    except Exception:  # a crash of the analyser is never a verdict
        traceback.print_exc()
        print(f"ANALYSIS-ERROR property={prop} analyser crashed")
        return 2


def main(argv=None) -> int:
    ap = argparse.ArgumentParser(prog='emsverif')
    sub = ap.add_subparsers(dest='cmd', required=True)
    c = sub.add_parser('check')
    c.add_argument('property')
    c.add_argument('--tier', default=os.environ.get('VERIF_TIER', 'quick'), choices=['quick', 'thorough'])
    c.add_argument('--repo', default=os.environ.get('EMSVERIF_REPO', '/repo'))
    c.add_argument('--no-evidence', action='store_true')
    a = sub.add_parser('all')
    a.add_argument('--tier', default=os.environ.get('VERIF_TIER', 'quick'), choices=['quick', 'thorough'])
    a.add_argument('--repo', default=os.environ.get('EMSVERIF_REPO', '/repo'))
    a.add_argument('--no-evidence', action='store_true')
    s = sub.add_parser('selftest')
    s.add_argument('properties', nargs='*')
    s.add_argument('--jobs', type=int, default=min(16, os.cpu_count() or 1))
    s.add_argument('--repo', default=os.environ.get('EMSVERIF_REPO', '/repo'))
    s.add_argument('-v', '--verbose', action='store_true')
    sub.add_parser('setup')
    opts = ap.parse_args(argv)
    seed = int(os.environ.get('VERIF_SEED', '0') or 0)

    if opts.cmd == 'check':
        return run_property(opts.property.upper(), opts.repo, opts.tier, seed, write_evidence=not opts.no_evidence)
    if opts.cmd == 'all':
        worst = 0
        for prop in ALL:
            if not (Path(__file__).parent / 'rules' / f"{prop.lower()}.py").exists():
                continue
            worst = max(worst, run_property(prop, opts.repo, opts.tier, seed, write_evidence=not opts.no_evidence))
        return worst
    if opts.cmd == 'selftest':
        from .variants import run_selftest
        rc = run_selftest(opts.properties or None, opts.repo, jobs=opts.jobs, verbose=opts.verbose)
        if not opts.properties:
            # the whole self-test also checks the analyser's normal forms: every rewrite of inline.py is run, in original and
            # in normalised text, on a corpus of synthetic functions (tools/normal_form_equivalence.py; emsarray is not executed)
            import subprocess
            tool = os.path.join(os.path.dirname(os.path.dirname(os.path.abspath(__file__))), 'tools', 'normal_form_equivalence.py')
            r = subprocess.run([sys.executable, tool], capture_output=True, text=True)
            print(r.stdout.rstrip())
            if r.returncode != 0:
                print(r.stderr[-2000:])
                rc = rc or 1
        return rc
    if opts.cmd == 'setup':
        # nothing to build: smoke test the parser host and the engine on the tree
        program = Program(os.environ.get('EMSVERIF_REPO', '/repo'))
        print(f"emsverif ready: python {sys.version.split()[0]}, {len(program.modules)} modules, "
              f"{len(program.functions)} functions, {len(program.classes)} classes")
        return 0
    return 2


if __name__ == '__main__':
    sys.exit(main())
