"""A corpus of small functions, one or more per normal form of emsverif/inline.py, with the inputs on which
tools/normal_form_equivalence.py compares each function with its normalised text (same result or same exception,
same final state of mutable arguments).  This file is *data for testing the analyser*: it is copied into a scratch
package, read by the same Program that reads /repo, and only the scratch copy is ever executed.  It imports nothing
from emsarray.

Each function is written in the idiom a normal form rewrites, with inputs chosen to tell a wrong rewrite from a right
one (empty and one-element sequences, missing keys, falsy values, None, duplicates)."""
import contextlib
import dataclasses
import enum
import functools
import itertools
import math
import operator
import re
from typing import Iterable, Iterator, NamedTuple

import numpy


class Kind(enum.Enum):
    left = 'left'
    back = 'back'
    node = 'node'


class Holder:
    """Stands for a convention: attributes the methods below alias."""
    _names = ('alpha', 'beta')
    _table = {'a': 1, 'b': 2}

    def __init__(self, dims=('t', 'y', 'x'), attrs=None, alpha=None, beta=None):
        self.dims = tuple(dims)
        self.attrs = dict(attrs or {})
        self.alpha = alpha
        self.beta = beta
        self.has_valid_alpha = alpha is not None
        self.has_valid_beta = beta is not None
        self.topology = self
        self.dataset = self
        self.sizes = {d: i + 2 for i, d in enumerate(self.dims)}

    # normalise_self_aliases
    def alias_of_self(self, extra):
        topology = self.topology
        sizes = self.dataset.sizes
        return [sizes[d] for d in topology.dims] + [extra]

    # normalise_class_constants + normalise_attribute_loops
    def nested_alias(self, flag):
        if flag:
            return 'early'
        else:
            first, second = self.alpha, self.beta
            return [first, second, first]

    def optional_names(self):
        names = []
        for name in self._names:
            if getattr(self, f'has_valid_{name}'):
                names.append(getattr(self, name))
        return names

    def optional_names_walrus(self):
        names = []
        for name in self._names:
            if (value := getattr(self, name)) is not None:
                names.append(value)
        return names

    def class_choices(self):
        return ('auto', *self._names), ['x', *self._names, 'y']

    def class_table(self, key):
        return self._table.get(key, 0)


class Pair(NamedTuple):
    first: object
    second: object


@dataclasses.dataclass
class Buffer:
    labels: list
    rows: list
    cursor: int = 0

    def add(self, label, items):
        stop = self.cursor + len(items)
        self.labels[self.cursor:stop] = [label] * len(items)
        self.rows[self.cursor:stop] = items
        self.cursor = stop


@dataclasses.dataclass(frozen=True)
class Layout:
    kind: str
    dims: tuple
    shape: tuple = ()

    @property
    def rank(self):
        return len(self.dims)


class Names(NamedTuple):
    x: object
    y: object


def _split_names(attr: str) -> Names:
    x, y = attr.split()[:2]
    return Names(x, y)


def _layout_for(kind, sizes) -> Layout:
    if not sizes:
        return Layout(kind=kind, dims=())
    return Layout(kind=kind, dims=tuple(sizes), shape=tuple(sizes.values()))


def _pairs(rows) -> 'Iterator[Pair]':
    for i, row in enumerate(rows):
        yield Pair(first=i, second=list(row))


class NamesHolder:
    def __init__(self, attr):
        self.attr = attr

    @property
    def _names(self) -> Names:
        return _split_names(self.attr)

    # normalise_record_reads: a field of an annotated property
    def second_name(self):
        return self._names.y, self._names.x


_KEYS = ('edge_node', 'edge_face')
_AXES = {Kind.left: [False, True], Kind.back: [True, False], Kind.node: [True, True]}
_ORDER = [Kind.back, Kind.left, Kind.node]
_NUMBER = re.compile(r'^-(\d|\.\d)')
LIMIT = 4


# ---------------------------------------------------------------- match statements

def match_sequence(dims):
    match dims.dims:
        case (only,):
            pass
        case others:
            raise ValueError(f"not one dimension: {list(others)!r}")
    return only


def match_values(kind):
    match kind:
        case 'a' | 'b':
            return 1
        case 'c':
            return 2
        case None:
            return 0
        case _:
            return -1


def match_class(value):
    match value:
        case int() | float():
            return 'number'
        case str():
            return 'text'
        case _:
            return 'other'


def match_pair(pair):
    match (pair[0], pair[1]):
        case (0, y):
            return ('zero', y)
        case (x, 0):
            return (x, 'zero')
        case _:
            return 'neither'


# ---------------------------------------------------------------- assignment expressions and look-ups

def walrus_header(attrs, key):
    if (value := attrs.get(key)) is None:
        return 'absent'
    return value


def walrus_conjunct(flag, items, drop):
    out = {}
    for item in items:
        if flag and (rest := frozenset(item) - drop):
            out.setdefault(rest, []).append(item)
    return out


def walrus_while(items):
    it = iter(items)
    total = 0
    while (x := next(it, None)) is not None:
        total += x
    return total


def walrus_expression(attrs, key, known):
    return (name := attrs.get(key)) is not None and name in known


def get_local(attrs, names):
    bounds = attrs.attrs.get('bounds')
    if bounds is not None:
        names.append(bounds)
    return names


def get_local_else(attrs):
    units = attrs.attrs.get('units')
    if units is None:
        return 'none'
    else:
        return units.upper()


def try_lookup(holder):
    try:
        start = holder.attrs['start_index']
    except KeyError:
        return 0
    if start in {0, 1}:
        return int(start)
    raise ValueError(start)


def try_lookup_continue(holders, known):
    names = []
    for holder in [holders.alpha, holders.beta]:
        try:
            bounds = holder.attrs['bounds']
        except KeyError:
            continue
        if bounds is None or bounds not in known:
            continue
        names.append(bounds)
    return names


def setdefault_statement(source, dest):
    for key, value in source.items():
        dest.setdefault(key, value)
    return dest


def get_test(attrs, key):
    if attrs.get(key) is not None:
        return attrs[key]
    return None


def get_test_encoding(encoding, key):
    """An encoding can hold None (`_FillValue: None` records "no fill value"): `.get(k) is None` is not `k not in encoding` and is left alone."""
    if encoding.get(key) is None:
        return 'no fill value'
    return encoding[key]


def library_spellings(xs, ys):
    """Other spellings of the same library calls."""
    import pandas
    import shapely.geometry
    import xarray
    a = numpy.asarray(xs, dtype=float)
    b = numpy.asarray(ys, dtype=float)
    columns = numpy.c_[a, b]
    grid = numpy.arange(6).reshape((2, 3), order='C')
    lifted = numpy.expand_dims(a, axis=0)
    turned = numpy.transpose(grid, axes=(1, 0))
    flat = numpy.ravel_multi_index((1, 2), dims=(2, 3), mode='raise', order='C')
    back = numpy.unravel_index(5, shape=(2, 3), order='C')
    series = pandas.Series(xs, dtype=float)
    frame = pandas.DataFrame({'x': xs, 'y': ys})
    array = xarray.DataArray(grid, dims=('j', 'i'))
    picked = array.isel(indexers={'j': 0}, drop=False)
    summed = array.cumsum(dim='i').argmax(dim='i')
    backwards = list(xs)[slice(None, None, -1)]
    outline = shapely.geometry.mapping(shapely.geometry.Point(1.0, 2.0))
    as_dataset = xarray.Dataset.from_dataframe(frame)
    shares = not set(xs).isdisjoint(ys)
    return (shares, columns.tolist(), lifted.shape, turned.tolist(), int(flat), tuple(int(v) for v in back), series.to_numpy().tolist(), array.to_numpy().tolist(),
            picked.values.tolist(), summed.values.tolist(), backwards, outline, sorted(as_dataset.data_vars), as_dataset['y'].values.tolist(),
            grid.tobytes(order='C') == grid.tobytes())


def annotated_locals(items):
    total: int = 0
    seen: list
    seen = []
    for item in items:
        size: int = len(item)
        total += size
        seen.append(size)
    label: str
    return total, seen


def metadata_temps(array, names):
    count = len(names)
    shape = array.shape
    merged = int(numpy.prod(shape[-count:])) if count else 1
    flat = array.reshape(shape[:len(shape) - count] + (merged,))
    return flat.shape, count, shape


def metadata_temps_kept(names):
    """The list grows after it was measured: the old length is kept under its name."""
    before = len(names)
    names.append('x')
    return before, len(names)


def method_alias(holder, items):
    lookup = holder.attrs.get
    found = [lookup(item) for item in items]
    upper = str.upper
    return found, [upper(item) for item in items]


def method_alias_kept(holder, items):
    """The alias is handed on as a value: it stays."""
    lookup = holder.attrs.get
    return list(map(lookup, items))


def _numbered(items):
    kept = list(items)
    return ((i, item) for i, item in enumerate(kept) if item is not None)


def loop_over_returned_generator(items):
    out = []
    for i, item in _numbered(items):
        out.append((i, item))
    return out


def variable_views(dataset):
    """`dataset` is an xarray.Dataset: the variable of a name and the data array of that name share attrs, encoding, dtype and dims."""
    found = []
    for name, variable in dataset.variables.items():
        attrs = variable.attrs
        if attrs.get('axis') == 'Z' and variable.dtype.kind == 'f' and len(variable.dims) == 1:
            found.append((name, variable.encoding.get('units', '?')))
    return found


def param_view(holder):
    attrs = holder.attrs
    return sorted(attrs), [attrs[k] for k in attrs]


def param_view_kept(holder):
    """The attribute is assigned in between: the old dictionary stays under its name."""
    attrs = holder.attrs
    holder.attrs = {'new': 1}
    return sorted(attrs), sorted(holder.attrs)


def disjoint_either_way(groups, wanted):
    chosen = set(wanted)
    nan = numpy.nan
    return [g for g in groups if chosen.isdisjoint(g)], [set(g).isdisjoint(chosen) for g in groups], [x for x in (1.0, nan) if x == x]


_ABSENT = object()


def sentinel_lookup(table, key):
    value = table.get(key, _ABSENT)
    if value is _ABSENT:
        raise KeyError(key)
    assert value is not None
    return value


def sentinel_lookup_kept(table, key):
    """Another exception, another key: left alone."""
    value = table.get(key, _ABSENT)
    if value is _ABSENT:
        raise KeyError('missing')
    return value


def library_keywords_kept(xs):
    """A keyword that is NOT the documented default stays: Fortran order is another array."""
    grid = numpy.asarray(xs).reshape((2, 2), order='F')
    return grid.tolist(), grid.ravel(order='F').tolist(), numpy.stack([grid, grid], axis=1).shape


# ---------------------------------------------------------------- collections

def conditional_element(has_edges):
    return frozenset(['face', 'node', *(['edge'] if has_edges else [])])


def conditional_element_negated(skip):
    kinds = ('face', *(() if skip else ('edge',)))
    return kinds


def enumerated_dict(found):
    hits = {position: item * 2 for position, item in enumerate(found) if item is not None}
    if len(hits) < len(found):
        missed = [i for i, item in enumerate(found) if item is None]
    else:
        missed = []
    return list(hits.values()), list(hits.keys()), missed


def unused_enumerate(items):
    return [item + 1 for position, item in enumerate(items) if item > 0]


def fusion(variables):
    all_attrs = (variable.attrs for variable in variables)
    return {attrs['bounds'] for attrs in all_attrs if 'bounds' in attrs}


def accumulate_points(coords, first):
    def step(previous, point, *, scale):
        return previous + abs(point) * scale
    following = map(float, coords)
    advance = functools.partial(step, scale=2)
    return list(itertools.accumulate(following, advance, initial=first))


def dims_copy(array, dimensions):
    original = list(array.dims)
    present = set(original)
    if not present.issuperset(dimensions):
        raise ValueError(sorted(set(dimensions) - present))
    leading = [d for d in original if d not in dimensions]
    target = leading + list(dimensions)
    if target != original:
        return ('transpose', target)
    return ('same', original)


def dict_union(flag):
    table = {'node': 1, 'face': 2}
    if not flag:
        return table
    return table | {'edge': 3}


def display_comprehension():
    return {f"{kind.value}_mask": _AXES[kind] for kind in _ORDER}, [k.name for k in (Kind.left, Kind.back)]


def local_table(face):
    masks = {Kind.node: face}
    for kind, axes in _AXES.items():
        if kind is not Kind.node:
            masks[kind] = (face, tuple(axes))
    return [masks[kind] for kind in _ORDER]


def literal_loop(log):
    for key, value in (('a', 1), ('b', 2)):
        log.append((key, value))
    for key in _KEYS:
        log.append(key)
    return log


def starred_map(rows):
    firsts, seconds = zip(*map(lambda r: (r[0], r[1]), rows))
    return list(firsts), list(map(operator.itemgetter(1), rows)), seconds


def small_quantifier(attrs):
    return any(key in attrs for key in ('a', 'b')), all(key in attrs for key in _KEYS)


def table_quantifier(attrs):
    return any(attrs.get(key) == value for key, value in (('axis', 'Z'), ('standard_name', 'depth'))), \
        all(attrs.get(key) != value for key, value in {'axis': 'Z', 'positive': 'up'}.items())


def subset_quantifier(dims, wanted):
    return all(d in dims for d in wanted), any(d not in dims for d in wanted)


def quantifier_polarity(values, known):
    return any(v not in known for v in values), not all(v in known for v in values)


def comprehension_filters(items):
    return [i for i in items if i > 0 if i % 2 == 0 if not i > 10]


def record_result(indexes):
    def unpack(items):
        if len(items) != 0:
            return Pair(first=min(items), second=list(items))
        return Pair(first=None, second=[])
    lowest, kept = unpack(indexes)
    return lowest, kept


def record_fields(kind, sizes):
    layout = _layout_for(kind, sizes)
    if layout.rank > 1:
        return layout.kind, list(layout.dims), layout.shape
    return layout.kind, layout.rank


def record_call_field(attr):
    return _split_names(attr).y


def record_iteration(rows):
    return [(pair.first, len(pair.second)) for pair in _pairs(rows)], [p.second for p in _pairs(rows)]


def record_sequence(points, measure):
    start, end = sorted((Pair(first=p, second=measure(p)) for p in points), key=lambda pair: pair.second)
    return start.first, end.first, start.second, end.second


def sort_then_return(items):
    found = [i * 2 for i in items]
    found.sort(key=lambda v: (v % 3, v))
    return found


def record_object(batches):
    total = sum(len(items) for _, items in batches)
    buffer = Buffer(labels=[None] * total, rows=[None] * total)
    for label, items in batches:
        buffer.add(label, items)
    assert buffer.cursor == total
    labels, rows = buffer.labels, buffer.rows
    return labels, rows, buffer.cursor


# ---------------------------------------------------------------- control flow

def _drop_invalid(items, log):
    bad = [i for i, item in enumerate(items) if item is not None and item < 0]
    if len(bad) == 0:
        return
    log.append(f"dropping {bad}")
    for i in bad:
        items[i] = None


def procedure_with_early_exit(items, log):
    _drop_invalid(items, log)
    return items, log


def unchanged_return(values, start):
    if start == 0:
        return values
    return values - start


def unchanged_return_argument(names, fallback):
    two = fallback
    if two in names:
        return two
    return next((n for n in names if len(n) == 2), two)


def search_loop_in_loop(polygons):
    out = []
    for coords in polygons:
        while len(coords) > 3:
            for i in range(len(coords) - 2):
                if coords[i] > coords[i + 1]:
                    continue
                if coords[i + 2] >= coords[i]:
                    break
            else:
                raise ValueError(f"no ear in {coords}")
            out.append(tuple(coords[i:i + 3]))
            coords = coords[:i + 1] + coords[i + 2:]
        out.append(tuple(coords))
    return out


def for_else_return(items, wanted):
    for name, item in items:
        if wanted <= set(item):
            break
    else:
        return None
    return name, len(item)


def first_match(sizes, fallback):
    for name, size in sizes.items():
        if size == 2:
            return name
    return fallback


def next_or_raise(variables):
    try:
        return next(v for v in variables if v > 1)
    except StopIteration:
        raise KeyError('none')


def null_context(handle_errors, log):
    manager = contextlib.suppress(ZeroDivisionError) if handle_errors else contextlib.nullcontext()
    with manager:
        log.append('in')
        1 / 0
    log.append('after')
    return log


def suppress_statement(mapping, key):
    with contextlib.suppress(KeyError):
        return mapping[key]
    return 'fallback'


def isinstance_union(value):
    if isinstance(value, list) or isinstance(value, tuple):
        return list(value)
    return [value]


def conditional_assignment(data, flag):
    if flag:
        result = data[0]
    else:
        result = None
    return result


def conditional_return(polygon):
    return (0, 0) if polygon is None else (polygon, polygon)


def test_local(values, has_fill):
    is_integer = isinstance(values[0], int)
    if is_integer:
        if has_fill:
            return 'masked-int'
        return 'plain-int'
    return 'float'


def display_loop(holder, log):
    for part in (holder.alpha, holder.beta):
        if part is None:
            continue
        label = part.upper()
        log.append(label)
    return log


def accumulator(items):
    out = []
    for item in items:
        if item is not None:
            out.append(item * 2)
    table = {}
    for item in items:
        if item is not None:
            table[item] = item + 1
    return out, table


def generator_function(items):
    def positives(xs):
        for x in xs:
            if x <= 0:
                continue
            y = x * 3
            yield y
    return list(positives(items)), sum(positives(items))


def local_generator(items):
    names = (str(i) for i in items if i is not None)
    return [n for n in names if n != '2']


def partial_call(points):
    def scaled(point, factor, *, offset):
        return point * factor + offset
    scale = functools.partial(scaled, factor=3, offset=1)
    return [scale(p) for p in points]


def getter(rows):
    key = operator.itemgetter(1)
    return sorted(rows, key=key), max(rows, key=operator.itemgetter(0))


def numpy_idioms(values, shape):
    positions = numpy.where(values > 1)[0]
    also = numpy.nonzero(values > 1)[0]
    size = math.prod(shape)
    wide = (*shape, 2)
    return positions.tolist(), also.tolist(), size, wide


def compiled_pattern(text):
    return bool(_NUMBER.match(text)), _NUMBER.sub('N', text)


def module_constant(n):
    return n > LIMIT, [k.upper() for k in _KEYS]


def enum_value(kind):
    return f"{Kind.left.value}_mask", Kind.node.name, kind.value


def keys_iteration(mapping):
    return [k for k in mapping.keys()], list(mapping.keys())


def unzip_loop(pairs):
    lefts, rights = [], []
    for a, b in pairs:
        lefts.append(a)
        rights.append(b)
    return lefts, rights


def dict_zip(keys, values):
    return dict(zip(keys, (v * 2 for v in values)))


def ifexp_self(value, default):
    value = default if value is None else value
    return value


def unordered_consumer(items):
    return set(sorted(items)) == set(items), len(frozenset(list(items))), sorted(set(numpy.sort(numpy.array(items, dtype=int))))


def or_default(values, fallback):
    out = []
    for v in values:
        value = v
        if not value:
            value = fallback(v)
        out.append(value)
    return out


def same_branch(items, keep, known):
    out = []
    for i, item in enumerate(items):
        if i in keep:
            out.append(i)
        elif known.intersection(item):
            out.append(i)
    return out


def optional_flag(mask, log):
    def as_list(x):
        out = list(x)
        return out
    edges = None
    if 'edges' in mask:
        edges = as_list(mask['edges'])
    table = edges
    if table is not None and mask.get('valid'):
        log.append(('edges', table))
    if table is None:
        log.append('no edges')
    return log


def optional_flag_expression(mask, log):
    edges = list(mask['edges']) if 'edges' in mask else None
    if edges is not None and mask.get('valid'):
        log.append(edges)
    if edges is None:
        log.append('none')
    return log


def quantifier_loop(attrs, variables):
    for key in ['edge_node', 'edge_face']:
        if key not in attrs:
            continue
        if attrs[key] in variables:
            return True
    return False


def quantifier_loop_all(items):
    for item in items:
        if item is not None:
            if item < 0:
                return False
    return True


def quantifier_loop_values(table, variables):
    for names in table.values():
        for name in names:
            if name not in variables:
                return None
    return 'HIGH'


def comprehension_negation(items, known):
    return [i for i in items if not (i not in known or i > 5)]


def expression_walrus(mapping, known):
    return [k for k in ('a', 'b') if (name := mapping.get(k)) is not None and name in known]


def _positives(xs):
    for x in xs:
        if x <= 0:
            continue
        y = x * 3
        yield y


def generator_helper(items):
    return list(_positives(items)), [v + 1 for v in _positives(items)]


def local_generator_function(items):
    def doubled():
        for x in items:
            t = x * 2
            yield t + 1
    return list(doubled())


def negative_ifexp(polygon):
    return [polygon, polygon] if polygon is not None else [0, 0]


def identity_generator(pairs):
    out = []
    for i, p in ((i, p) for i, p in pairs if p is not None):
        out.append((i, p))
    return out, [i for i, p in ((i, p) for i, p in pairs if p is not None) if i > 0]


def next_or_raise_statements(variables):
    found = next((v * 2 for v in variables if v > 1), None)
    if found is None:
        raise KeyError('none')
    return found


def subset_of_local_set(array, dimensions):
    present = set(array.dims)
    if not all(d in present for d in dimensions):
        return 'missing'
    return 'ok'


def unzip_loop_pairs(items):
    lefts = []
    rights = []
    for item in items:
        a, b = divmod(item, 3)
        lefts.append(a)
        rights.append(b)
    return lefts, rights


def unzip_loop_guarded(items):
    if len(items) == 0:
        return None
    lefts = []
    rights = []
    for item in items:
        a, b = divmod(item, 3)
        lefts.append(a)
        rights.append(b)
    return lefts[0], set(rights), len(lefts)


def local_table_straight(face):
    masks = {Kind.node: face}
    masks[Kind.left] = (face, 1)
    masks[Kind.back] = (face, 2)
    return [masks[Kind.back], masks[Kind.node], masks[Kind.left]]


def unchanged_return_local(raw, start):
    values = list(raw)
    if start == 0:
        return values
    return values[start:]


# ---------------------------------------------------------------- helpers spliced into their callers

def _twice(x):
    return x + x


def inline_expression_once(items):
    it = iter(items)
    return _twice(next(it)), list(it)


def _is_wanted(item, known):
    if item is None:
        return False
    if item in known:
        return True
    return item > 10


def inline_predicate(items, known):
    return [i for i in items if _is_wanted(i, known)]


def _classify(value):
    if value is None:
        return 'none', 0
    if value < 0:
        kind = 'negative'
        size = -value
    else:
        kind = 'positive'
        size = value
    return kind, size


def inline_multi(values):
    out = []
    for v in values:
        kind, size = _classify(v)
        out.append((kind, size))
    return out


def _quiet_mean(values, log):
    with contextlib.suppress(ZeroDivisionError):
        log.append('in')
        return sum(values) / len(values)


def inline_with_return(values, log):
    mean = _quiet_mean(values, log)
    log.append('after')
    return mean, log


def _candidates(variables, *, wanted, skip_prefix):
    skipped = {name for name in variables if name.startswith(skip_prefix)}
    for name, attrs in variables.items():
        if name not in skipped and attrs.get('units') in wanted:
            yield name


def generator_with_prologue(variables):
    found = _candidates(variables, wanted={'m', 'km'}, skip_prefix='_')
    try:
        return next(found)
    except StopIteration:
        raise ValueError('none')


def _flip(table, entry, key):
    name = entry['name']
    if name == key:
        table = dict(table, flipped=name)
    else:
        table = dict(table, other=name)
    entry = table.get('flipped')
    try:
        extra = table['bounds']
    except KeyError:
        return table
    return dict(table, extra=(extra, entry))


def rebinding_helper(table, entry, key):
    current = dict(table)
    item = dict(entry)
    if key is not None:
        current = _flip(current, item, key)
        item = current.get('other')
    return current, item


def _guess(values, log):
    positives = sum(1 for v in values if v > 0)
    negatives = sum(1 for v in values if v < 0)
    down = positives > negatives
    log.append(f"guessing {'down' if down else 'up'}")
    return down


def result_temp(values, attrs, log):
    if 'positive' in attrs:
        down = attrs['positive'] == 'down'
    else:
        down = _guess(values, log)
    return down, log


def _cells_of(polygons, wind):
    return ((i, wind(i), polygon) for i, polygon in enumerate(polygons) if polygon is not None)


def projected_comprehension(polygons):
    calls = []

    def wind(i):
        calls.append(i)
        return ('k', i)
    features = [{'linear': linear_index, 'index': index, 'shape': polygon * 2} for linear_index, index, polygon in _cells_of(polygons, wind)]
    return features, calls


def projected_loop(polygons):
    calls = []
    log = []

    def wind(i):
        calls.append(i)
        return ('k', i)
    for linear_index, index, polygon in _cells_of(polygons, wind):
        log.append((f"polygon{linear_index}", linear_index, index))
        log.append(polygon)
    return log, calls


def _claims(line, cells):
    remaining = set(line)
    for index in sorted(cells):
        cell = cells[index]
        taken = remaining & cell
        remaining = remaining - cell
        yield index, sorted(taken)


def stateful_generator(line, cells):
    out = []
    for index, taken in _claims(line, cells):
        for item in taken:
            out.append((index, item))
    return out


def _groups_of(table, wanted):
    groups = {}
    for name, dims in table.items():
        if wanted not in dims:
            continue
        groups.setdefault(frozenset(dims) - {wanted}, []).append(name)
    return [Pair(first=key, second=tuple(names)) for key, names in groups.items()]


def loop_over_built_list(table, wanted):
    out = []
    for group in _groups_of(table, wanted):
        out.append((sorted(group.first), group.second[0], len(group.second)))
        table = dict(table, seen=len(out))
    return out, table


def _count_items(items: Iterable[str]) -> int:
    return len(set(items))


def _kind_of(items):
    return type(items).__name__


def loop_copies(table):
    """`t = tuple(x)` of the loop variable reads as `x` where only the items matter; not where the kind of sequence is seen."""
    out = []
    for key, names in table.items():
        frozen = tuple(names)
        out.append((key, frozen[0], len(frozen), _count_items(frozen), [n for n in frozen]))
    for key, names in table.items():
        kept = tuple(names)
        out.append((key, _kind_of(kept), kept))
    return out


def _first_rising(values):
    shifted = values[1:]
    size = values.__len__
    for i in range(len(shifted)):
        if values[i] is None:
            continue
        if not shifted[i] > values[i]:
            continue
        return i
    raise ValueError(f"no rise in {values}")


def search_helper(rows):
    out = []
    for row in rows:
        while len(row) > 2:
            size = row.__len__
            i = _first_rising(row)
            out.append(size())
            out.append((i, row[i]))
            row = row[:i] + row[i + 1:]
        out.append(tuple(row))
    return out


def _lookup(table, key):
    try:
        return table[key]
    except KeyError:
        pass
    for k, v in table.items():
        if str(k) == str(key):
            return v
    raise LookupError(key)


def inline_tail(table, key):
    return _lookup(table, key)


def _fill(target, value, count):
    for i in range(count):
        target.append(value)
    label = f"{value}x{count}"
    return label


def inline_statement(count):
    target = []
    label = _fill(target, 'a', count)
    other = _fill(target, 'b', 1)
    return target, label, other


def _shadowing(values):
    total = 0
    for values_item in values:
        total += values_item
    return total


def inline_names_do_not_clash(values):
    total = 100
    inner = _shadowing(values)
    return total, inner


def suppress_block(mapping, log):
    with contextlib.suppress(KeyError):
        log.append('before')
        value = mapping['k']
        log.append(value)
    log.append('after')
    return log


def dict_union_spread(flag):
    table = {'node': 1}
    if flag:
        return {**table, 'edge': 3}
    return table


def get_conjunction(attrs, known):
    if attrs.get('k') is not None and attrs.get('k') in known:
        return attrs.get('k')
    return None


def masked_idiom(values):
    masked = numpy.ma.masked_invalid(values)
    return bool(numpy.ma.is_masked(masked)), int(masked.count())


def generator_argument(items):
    return sorted(set(i % 3 for i in items)), tuple(i for i in items if i), ', '.join(str(i) for i in items)


def self_conditional(value, flag):
    value = value * 2 if flag else value
    return value


def conditional_assignment_with_default(mapping, key):
    result = None
    if key in mapping:
        result = mapping[key]
    return result


def nested_ifs(a, b, log):
    if a:
        if b:
            log.append('both')
    if not a:
        log.append('not a')
    return log


def early_continue(items):
    out = []
    for item in items:
        if item is None:
            continue
        if item < 0:
            continue
        out.append(item)
    return out


def while_true_break(items):
    it = iter(items)
    total = 0
    while True:
        x = next(it, None)
        if x is None:
            break
        total += x
    return total


def for_else_raise(items, wanted):
    for item in items:
        if item == wanted:
            found = item
            break
    else:
        raise KeyError(wanted)
    return found * 2


# ---------------------------------------------------------------- third batch: order of evaluation, generators, records

def _pair_difference(a, b):
    return b - a


def inline_two_impure(items):
    it = iter(items)
    return _pair_difference(next(it), next(it))


def _conditional_use(flag, value):
    return value if flag else 0


def inline_conditional_use(flag, items):
    it = iter(items)
    first = _conditional_use(flag, next(it))
    return first, list(it)


def _store(target, key, value):
    target[key] = value
    return len(target)


def inline_statement_impure(items):
    it = iter(items)
    table = {}
    n = _store(table, next(it), next(it))
    return n, table


def _segments(pieces):
    for index, piece in enumerate(pieces):
        if not piece:
            continue
        yield index, piece.upper()


def generator_spliced(pieces, stop):
    out = []
    for index, text in _segments(pieces):
        if text == stop:
            break
        out.append((index, text))
    return out


def local_generator_with_filter(items):
    def wanted():
        for x in items:
            if x is None:
                continue
            yield x * 2
    return list(wanted())


def first_match_nested(tables, dims):
    for name in tables:
        if name in dims:
            for d in dims[name]:
                if d != 'edge' and len(d) == 2:
                    return d
    return 'Two'


def conditional_assignment_one_branch(values, flag):
    size = len(values)
    if flag:
        size = size * 2
    return size


def search_loop_two_tests(rows):
    out = []
    for row in rows:
        for i, item in enumerate(row):
            if item is not None:
                if item > 1:
                    break
        else:
            raise ValueError(row)
        out.append((i, item))
    return out


def attribute_loop_two_statements(holder):
    out = []
    for name in ('alpha', 'beta'):
        value = getattr(holder, name)
        if value is not None:
            out.append((name, value))
    return out


@dataclasses.dataclass
class Counter:
    seen: list
    total: int = 0

    def push(self, item):
        self.seen.append(item)
        self.total += item
        return self.total


@dataclasses.dataclass
class Tally:
    slots: list
    used: int = 0

    @classmethod
    def of_size(cls, size):
        return cls(slots=[None] * size)

    def put(self, item):
        self.slots[self.used] = item
        self.used += 1


def record_object_factory(items):
    tally = Tally.of_size(len(items))
    for item in items:
        tally.put(item * 2)
    assert tally.used == len(items)
    return tally.slots


def record_object_with_results(items):
    counter = Counter(seen=[])
    sums = [counter.push(i) for i in items]
    return sums, counter.seen, counter.total


def enumerated_dict_iterated(found):
    hits = {position: item for position, item in enumerate(found) if item}
    return [p for p in hits], sorted(hits.values()), len(hits)


def partial_positional(points):
    def shifted(offset, point):
        return point + offset
    move = functools.partial(shifted, 10)
    return [move(p) for p in points], list(map(move, points))


def dict_zip_values(table):
    return dict(zip(table.keys(), (v + 1 for v in table.values())))


def conditional_return_statement(flag, a, b):
    if flag:
        return a
    else:
        return b


def chained_comparison(value, low, high):
    if not (low <= value <= high):
        raise OverflowError(value)
    return value


def de_morgan_filter(items, known):
    return [i for i in items if not (i is None or i in known)]


def try_else(mapping, key, log):
    try:
        value = mapping[key]
    except KeyError:
        log.append('missing')
    else:
        log.append(value)
    return log


def swap_branches(depth):
    if depth is None:
        result = 'default'
    else:
        result = str(depth)
    return result


HOLDER_A = Holder(attrs={'bounds': 'b1', 'start_index': 1, 'units': 'm'}, alpha='x', beta=None)
HOLDER_B = Holder(dims=('z',), attrs={}, alpha=None, beta='y')
HOLDER_C = Holder(dims=(), attrs={'bounds': None, 'start_index': 2}, alpha='p', beta='q')
HOLDER_AB = Holder(alpha=HOLDER_A, beta=HOLDER_B)
HOLDER_CA = Holder(alpha=HOLDER_C, beta=HOLDER_A)

def _xr_dataset():
    import xarray
    ds = xarray.Dataset({'t': (('k',), numpy.arange(3.0), {'axis': 'Z'}), 'u': (('k', 'j'), numpy.zeros((3, 2)), {'axis': 'Z'}), 'n': (('k',), numpy.arange(3), {'axis': 'Z'})})
    ds['t'].encoding['units'] = 'metres'
    return ds


CASES = {
    'Holder.alias_of_self': [(HOLDER_A, 1), (HOLDER_B, 2)],
    'Holder.nested_alias': [(HOLDER_A, True), (HOLDER_A, False), (HOLDER_C, False)],
    'Holder.optional_names': [(HOLDER_A,), (HOLDER_B,), (HOLDER_C,)],
    'Holder.optional_names_walrus': [(HOLDER_A,), (HOLDER_B,), (HOLDER_C,)],
    'Holder.class_choices': [(HOLDER_A,)],
    'Holder.class_table': [(HOLDER_A, 'a'), (HOLDER_A, 'z')],
    'match_sequence': [(HOLDER_A,), (HOLDER_B,), (HOLDER_C,)],
    'match_values': [('a',), ('b',), ('c',), (None,), ('d',), (0,)],
    'match_class': [(1,), (1.5,), ('x',), (None,), (True,)],
    'match_pair': [((0, 5),), ((5, 0),), ((0, 0),), ((1, 1),)],
    'walrus_header': [({'k': 1}, 'k'), ({'k': 0}, 'k'), ({}, 'k')],
    'walrus_conjunct': [(True, ['ab', 'a', 'bc'], frozenset('a')), (False, ['ab'], frozenset()), (True, [], frozenset())],
    'walrus_while': [([1, 2, 3],), ([],), ([1, None, 5],)],
    'walrus_expression': [({'k': 'a'}, 'k', {'a'}), ({'k': 'a'}, 'k', set()), ({}, 'k', {'a'})],
    'get_local': [(HOLDER_A, []), (HOLDER_B, ['x'])],
    'get_local_else': [(HOLDER_A,), (HOLDER_B,)],
    'try_lookup': [(HOLDER_A,), (HOLDER_B,), (HOLDER_C,)],
    'try_lookup_continue': [(HOLDER_AB, {'b1'}), (HOLDER_AB, set()), (HOLDER_CA, {'b1', None})],
    'setdefault_statement': [({'a': 1, 'b': 2}, {'a': 0}), ({}, {}), ({'a': None}, {})],
    'get_test': [({'k': 1}, 'k'), ({}, 'k'), ({'k': 0}, 'k')],
    'library_spellings': [([1, 2, 3], [4.5, 5, 6]), ([7], [8]), ([1, 2], [2, 3])],
    'annotated_locals': [(['ab', '', 'cde'],), ([],)],
    'metadata_temps': [(numpy.arange(24).reshape(2, 3, 4), ['a', 'b']), (numpy.arange(6).reshape(2, 3), [])],
    'metadata_temps_kept': [(['a'],), ([],)],
    'method_alias': [(HOLDER_A, ['bounds', 'units']), (HOLDER_C, ['bounds', 'start_index'])],
    'method_alias_kept': [(HOLDER_C, ['bounds', 'start_index'])],
    'loop_over_returned_generator': [(['a', None, 'c'],), ([],), ([None],)],
    'variable_views': [(_xr_dataset(),)],
    'param_view': [(HOLDER_A,), (HOLDER_C,)],
    'param_view_kept': [(Holder(dims=(), attrs={'a': 1}, alpha='p', beta='q'),)],
    'disjoint_either_way': [([('a', 'b'), ('c',), ()], ['a']), ([], [])],
    'sentinel_lookup': [({'a': 1}, 'a'), ({'a': 1}, 'b'), ({'a': 0}, 'a')],
    'sentinel_lookup_kept': [({'a': 1}, 'b'), ({'a': 1}, 'a')],
    'library_keywords_kept': [([1, 2, 3, 4],)],
    'get_test_encoding': [({'k': 1}, 'k'), ({}, 'k'), ({'k': None}, 'k'), ({'k': 0}, 'k')],
    'conditional_element': [(True,), (False,)],
    'conditional_element_negated': [(True,), (False,)],
    'enumerated_dict': [([1, None, 3],), ([],), ([None],), ([2, 2],)],
    'unused_enumerate': [([1, -1, 2],), ([],)],
    'fusion': [([HOLDER_A, HOLDER_B, HOLDER_C],), ([],)],
    'accumulate_points': [(['1', '-2', '3'], 0.0), ([], 5.0)],
    'dims_copy': [(HOLDER_A, ['y']), (HOLDER_A, ['x']), (HOLDER_A, ['y', 'x']), (HOLDER_A, ['q']), (HOLDER_B, [])],
    'dict_union': [(True,), (False,)],
    'display_comprehension': [()],
    'local_table': [('f',)],
    'literal_loop': [([],)],
    'starred_map': [([(1, 2), (3, 4)],), ([(5, 6)],)],
    'table_quantifier': [({'axis': 'Z'},), ({'standard_name': 'depth', 'positive': 'up'},), ({},)],
    'small_quantifier': [({'a': 1},), ({'edge_node': 1, 'edge_face': 2},), ({},)],
    'subset_quantifier': [(('x', 'y'), ['x']), (('x',), ['x', 'y']), ((), [])],
    'quantifier_polarity': [([1, 2], {1, 2}), ([1, 3], {1}), ([], set())],
    'comprehension_filters': [([1, 2, 4, 12, -2],), ([],)],
    'record_result': [([3, 1, 2],), ([],)],
    'record_fields': [('face', {'y': 2, 'x': 3}), ('node', {'n': 4}), ('edge', {})],
    'record_call_field': [('lon lat',), ('lon lat z',), ('lon',)],
    'record_iteration': [([[1, 2], [3]],), ([],)],
    'NamesHolder.second_name': [(NamesHolder('a b'),), (NamesHolder('a'),)],
    'record_sequence': [([3, 1], abs), ([-1, -5], abs), ([2, 2], abs)],
    'sort_then_return': [([3, 1, 2],), ([],)],
    'record_object': [([('a', [1, 2]), ('b', [3])],), ([],)],
    'procedure_with_early_exit': [([1, -1, None, -3], []), ([1, 2], []), ([], [])],
    'unchanged_return': [(numpy.array([1, 2, 3]), 0), (numpy.array([1, 2, 3]), 1)],
    'unchanged_return_argument': [(['ab', 'Two'], 'Two'), (['ab', 'cd'], 'Two'), ([], 'Two')],
    'search_loop_in_loop': [([[1, 2, 3, 4], [1, 2, 3]],), ([[5, 4, 3, 2]],), ([],)],
    'for_else_return': [([('a', 'xy'), ('b', 'xyz')], {'z'}), ([('a', 'xy')], {'q'}), ([], set())],
    'first_match': [({'a': 3, 'b': 2, 'c': 2}, 'Two'), ({}, 'Two')],
    'next_or_raise': [([0, 1, 2, 3],), ([0],), ([],)],
    'null_context': [(True, []), (False, [])],
    'suppress_statement': [({'k': 1}, 'k'), ({}, 'k')],
    'isinstance_union': [([1],), ((1, 2),), ('ab',), (None,)],
    'conditional_assignment': [([1, 2], True), ([], False), ([], True)],
    'conditional_return': [(None,), (3,)],
    'test_local': [([1], True), ([1], False), ([1.0], True)],
    'display_loop': [(HOLDER_A, []), (HOLDER_B, []), (HOLDER_C, [])],
    'accumulator': [([1, None, 2, 1],), ([],)],
    'generator_function': [([1, -1, 2],), ([],)],
    'local_generator': [([1, 2, None, 3],), ([],)],
    'partial_call': [([1, 2],), ([],)],
    'getter': [([(1, 'b'), (2, 'a')],)],
    'numpy_idioms': [(numpy.array([0, 2, 1, 3]), (2, 3)), (numpy.array([]), ())],
    'compiled_pattern': [('-10,5',), ('-.5',), ('-x',), ('10',)],
    'module_constant': [(3,), (5,)],
    'enum_value': [(Kind.back,)],
    'keys_iteration': [({'a': 1, 'b': 2},), ({},)],
    'unzip_loop': [([(1, 2), (3, 4)],), ([],)],
    'dict_zip': [(['a', 'b'], [1, 2]), ([], [])],
    'ifexp_self': [(None, 1), (0, 1), (2, 1)],
    'unordered_consumer': [([3, 1, 3],), ([],)],
    'or_default': [([0, 1, None, 2], lambda v: ('d', v)), ([], str)],
    'same_branch': [([[1], [2], [3]], {0}, {3}), ([], set(), set())],
    'optional_flag': [({'edges': [1], 'valid': True}, []), ({'edges': [], 'valid': True}, []), ({'valid': True}, []), ({'edges': [2]}, [])],
    'optional_flag_expression': [({'edges': [1], 'valid': True}, []), ({'edges': []}, []), ({'valid': True}, [])],
    'quantifier_loop': [({'edge_face': 'ef'}, {'ef'}), ({'edge_node': 'en'}, set()), ({}, {'x'})],
    'quantifier_loop_all': [([1, None, 2],), ([1, -1],), ([],)],
    'quantifier_loop_values': [({'a': ('x', 'y'), 'b': ('z',)}, {'x', 'y', 'z'}), ({'a': ('x', 'q')}, {'x'}), ({}, set())],
    'comprehension_negation': [([1, 2, 7, 9], {1, 7}), ([], set())],
    'expression_walrus': [({'a': 'x', 'b': 'y'}, {'x'}), ({}, {'x'})],
    'generator_helper': [([1, -1, 2],), ([],)],
    'local_generator_function': [([1, 2],), ([],)],
    'negative_ifexp': [(None,), (3,)],
    'identity_generator': [([(0, 'a'), (1, None), (2, 'c')],), ([],)],
    'next_or_raise_statements': [([0, 1, 2, 3],), ([0],), ([],)],
    'subset_of_local_set': [(HOLDER_A, ['x']), (HOLDER_A, ['q']), (HOLDER_B, [])],
    'unzip_loop_pairs': [([4, 5, 9],), ([7],), ([],)],
    'unzip_loop_guarded': [([4, 5, 9],), ([7],), ([],)],
    'local_table_straight': [('f',)],
    'unchanged_return_local': [([1, 2, 3], 0), ([1, 2, 3], 1), ([], 0)],
    'inline_expression_once': [([1, 2, 3],), ([5],), ([],)],
    'inline_predicate': [([1, None, 20, 3], {3}), ([], set())],
    'inline_multi': [([1, -2, None, 0],), ([],)],
    'inline_with_return': [([1, 2, 3], []), ([], [])],
    'generator_with_prologue': [({'_a': {'units': 'm'}, 'b': {'units': 'km'}},), ({'a': {}},), ({},)],
    'rebinding_helper': [({'bounds': 1}, {'name': 'z'}, 'z'), ({}, {'name': 'z'}, 'q'), ({'bounds': 2}, {'name': 'z'}, None)],
    'result_temp': [([1, 2, -1], {}, []), ([-1], {'positive': 'down'}, []), ([], {}, [])],
    'projected_comprehension': [([1, None, 3],), ([],)],
    'projected_loop': [([1, None, 3],), ([],)],
    'stateful_generator': [([1, 2, 3], {2: {2, 3}, 1: {1, 2}}), ([], {}), ([1], {1: set()})],
    'loop_copies': [({'a': ['x', 'y', 'x'], 'b': ['z']},), ({},)],
    'loop_over_built_list': [({'a': ('z', 'y'), 'b': ('z', 'y'), 'c': ('z', 'x'), 'd': ('y',)}, 'z'), ({}, 'z')],
    'search_helper': [([[1, 2, 3], [3, 1, 2, 5]],), ([[3, 2, 1]],), ([],)],
    'inline_tail': [({'a': 1, 2: 'two'}, 'a'), ({'a': 1, 2: 'two'}, '2'), ({}, 'z')],
    'inline_statement': [(2,), (0,)],
    'inline_names_do_not_clash': [([1, 2],), ([],)],
    'suppress_block': [({'k': 1}, []), ({}, [])],
    'dict_union_spread': [(True,), (False,)],
    'get_conjunction': [({'k': 'a'}, {'a'}), ({'k': 'a'}, set()), ({}, {'a'})],
    'masked_idiom': [(numpy.array([1.0, numpy.nan]),), (numpy.array([1.0, 2.0]),)],
    'generator_argument': [([3, 4, 0, 7],), ([],)],
    'self_conditional': [(2, True), (2, False)],
    'conditional_assignment_with_default': [({'a': 0}, 'a'), ({}, 'a')],
    'nested_ifs': [(True, True, []), (True, False, []), (False, True, [])],
    'early_continue': [([1, None, -1, 2],), ([],)],
    'while_true_break': [([1, 2],), ([],)],
    'for_else_raise': [([1, 2, 3], 2), ([1], 5), ([], 1)],
    'inline_two_impure': [([1, 5],), ([1],)],
    'inline_conditional_use': [(True, [1, 2]), (False, [1, 2]), (False, [])],
    'inline_statement_impure': [(['k', 'v'],), (['k'],)],
    'generator_spliced': [(['a', '', 'b', 'c'], 'C'), (['a'], 'Z'), ([], 'Z')],
    'local_generator_with_filter': [([1, None, 2],), ([],)],
    'first_match_nested': [(['t1', 't2'], {'t2': ['edge', 'ab', 'cd']}), (['t1'], {}), ([], {})],
    'conditional_assignment_one_branch': [([1, 2], True), ([1, 2], False)],
    'search_loop_two_tests': [([[None, 1, 2], [5]],), ([[None, 1]],), ([],)],
    'attribute_loop_two_statements': [(HOLDER_A,), (HOLDER_B,), (HOLDER_C,)],
    'record_object_factory': [([1, 2],), ([],)],
    'record_object_with_results': [([1, 2, 3],), ([],)],
    'enumerated_dict_iterated': [([0, 3, None, 1],), ([],)],
    'partial_positional': [([1, 2],), ([],)],
    'dict_zip_values': [({'a': 1, 'b': 2},), ({},)],
    'conditional_return_statement': [(True, 1, 2), (False, 1, 2)],
    'chained_comparison': [(5, 0, 10), (11, 0, 10), (-1, 0, 10)],
    'de_morgan_filter': [([1, None, 2, 3], {2}), ([], set())],
    'try_else': [({'k': 'v'}, 'k', []), ({}, 'k', [])],
    'swap_branches': [(None,), (0,), (5,)],
}

# inputs outside an assumption the normal forms state: an attribute dictionary holds no None values (netCDF attributes cannot), so
# `m.get(k) is not None` and `k in m` are read as the same question.  These are run and reported, not required to agree.
ASSUMED_CASES = {
    'walrus_header': [({'k': None}, 'k')],
    'get_local': [(HOLDER_C, [])],
    'try_lookup_continue': [(HOLDER_CA, {'b1', None})],
    'setdefault_statement': [({'a': None}, {})],
}
