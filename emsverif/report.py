"""E11 - obligations, verdicts, evidence, known findings."""
from __future__ import annotations

import ast
import json
import os
import time
from dataclasses import dataclass, field
from pathlib import Path
from typing import Optional

from .model import AnalysisError, FuncInfo, Program, norm_text

VERIF = Path(__file__).resolve().parent.parent


@dataclass
class Obligation:
    rule: str
    text: str                 # what is required
    site: str                 # file:line (function)
    function: str             # qualified function (short form), part of the finding key
    construct: str            # normalised construct text, part of the finding key
    ok: bool
    detail: str = ''

    @property
    def key(self) -> tuple[str, str, str]:
        return (self.rule, self.function, self.construct)

    def as_dict(self) -> dict:
        return {'rule': self.rule, 'requires': self.text, 'site': self.site,
                'function': self.function, 'construct': self.construct,
                'status': 'discharged' if self.ok else 'VIOLATED', 'detail': self.detail}


class AbortRules(Exception):
    """Raised by Context.need after recording the violation."""


class _Section:
    def __init__(self, ctx, title):
        self.ctx, self.title = ctx, title

    def __enter__(self):
        return self

    def __exit__(self, et, ev, tb):
        if et is None:
            return False
        if issubclass(et, AbortRules):
            self.ctx.aborted.append(self.title)
            return True
        if issubclass(et, NameError) and self.ctx.aborted:
            self.ctx.aborted.append(self.title + ' (depends on an abandoned group)')
            return True
        return False


class Context:
    """Handed to every rule: the program model plus obligation bookkeeping."""

    def __init__(self, program: Program, prop: str, tier: str = 'quick'):
        self.p = program
        self.prop = prop
        self.tier = tier
        self.obligations: list[Obligation] = []
        self.functions_analysed: set[str] = set()
        self.rule_texts: dict[str, str] = {}
        self.instances: dict[str, int] = {}
        self.floors: dict[str, int] = {}
        self.assumptions: list[str] = []
        self.notes: list[str] = []
        self._flows: dict[str, object] = {}
        self._cfgs: dict[str, object] = {}
        self._types: dict[tuple, object] = {}
        self.aborted: list[str] = []

    def section(self, title: str = ''):
        """Group of rules that stands or falls together.  A `need` that fails inside the
        group records its violation and abandons the rest of the group only; later groups
        still run, so that rules which other properties adopt are produced whenever their own
        anchors are intact.  A later group that depended on a name bound by an abandoned one
        is abandoned too (NameError after an abort), never silently on an intact tree."""
        return _Section(self, title)

    # ---- caches
    def flow(self, fi: FuncInfo):
        from .flow import Flow
        if fi.qualname not in self._flows:
            outer = self.flow(fi.parent) if fi.parent is not None else None
            self._flows[fi.qualname] = Flow(fi, outer)
        self.functions_analysed.add(fi.qualname)
        return self._flows[fi.qualname]

    def cfg(self, fi: FuncInfo):
        from .cfg import CFG
        if fi.qualname not in self._cfgs:
            self._cfgs[fi.qualname] = CFG(fi)
        self.functions_analysed.add(fi.qualname)
        return self._cfgs[fi.qualname]

    def types(self, fi: FuncInfo, self_class=None):
        from .model import TypeEnv
        k = (fi.qualname, self_class.qualname if self_class else None)
        if k not in self._types:
            self._types[k] = TypeEnv(self.p, fi, self_class)
        return self._types[k]

    def func(self, qualname: str) -> FuncInfo:
        fi = self.p.func(qualname)
        self.functions_analysed.add(fi.qualname)
        return fi

    # ---- rules
    def rule(self, rule: str, text: str, floor: int = 1) -> None:
        self.rule_texts[rule] = text
        self.instances.setdefault(rule, 0)
        self.floors[rule] = floor

    def check(self, rule: str, ok: bool, text: str, fi: Optional[FuncInfo], node: Optional[ast.AST] = None,
              *, construct: Optional[str] = None, detail: str = '') -> bool:
        if rule not in self.rule_texts:
            raise AnalysisError(f"rule {rule} used before being declared")
        if construct is None:
            construct = norm_text(node) if node is not None else text
        if len(construct) > 160:
            construct = construct[:157] + '...'
        site = fi.where(node) if fi is not None else '-'
        fn = fi.short if fi is not None else '-'
        self.obligations.append(Obligation(rule, text, site, fn, construct, bool(ok), detail))
        self.instances[rule] = self.instances.get(rule, 0) + 1
        if fi is not None:
            self.functions_analysed.add(fi.qualname)
        return bool(ok)

    def need(self, rule: str, cond: bool, text: str, fi: Optional[FuncInfo], node: Optional[ast.AST] = None,
             *, construct: Optional[str] = None) -> None:
        """A step the rule depends on must be present in recognisable form inside an anchored
        function.  When it is absent that is a violated obligation ("required step absent"),
        and the rest of this property's rules, which build on it, are abandoned."""
        if cond:
            return
        self.check(rule, False, text, fi, node if node is not None else (fi.node if fi else None),
                   construct=construct or f"required step absent: {text}", detail='required step absent or not in a recognised form')
        raise AbortRules(text)

    def require(self, cond: bool, message: str) -> None:
        """The analysis itself needs this to stand; otherwise ANALYSIS-ERROR."""
        if not cond:
            raise AnalysisError(message)

    def assume(self, text: str) -> None:
        if text not in self.assumptions:
            self.assumptions.append(text)


# --------------------------------------------------------------------------- known findings

def load_known(path: Optional[Path] = None) -> dict:
    path = path or (VERIF / 'known_findings.json')
    if not path.exists():
        return {'known': [], 'fixed': []}
    return json.loads(path.read_text())


def match_known(prop: str, ob: Obligation, known: dict) -> Optional[dict]:
    for entry in known.get('known', []):
        if entry.get('property') != prop or entry.get('rule') != ob.rule:
            continue
        if entry.get('function') != ob.function:
            continue
        if entry.get('construct_contains') and entry['construct_contains'] not in ob.construct:
            continue
        if entry.get('construct') and entry['construct'] != ob.construct:
            continue
        return entry
    return None


# --------------------------------------------------------------------------- finishing

def finish(ctx: Context, started: float, seed: int, *, extra_coverage: Optional[dict] = None,
           evidence_dir: Optional[Path] = None, replay_dir: Optional[Path] = None,
           write_evidence: bool = True, quiet: bool = False) -> int:
    known = load_known()
    violations = []
    known_hits = []
    for ob in ctx.obligations:
        if ob.ok:
            continue
        entry = match_known(ctx.prop, ob, known)
        if entry is not None:
            known_hits.append((ob, entry))
        else:
            violations.append(ob)
    # instance floors guard against vacuous passes: a rule that matches fewer sites than
    # were confirmed by hand no longer finds its instances.  A violated obligation is
    # reported as such even when it made dependent obligations unreachable.
    if not violations:
        for rule, floor in ctx.floors.items():
            if ctx.instances.get(rule, 0) < floor:
                raise AnalysisError(
                    f"rule {rule} matched {ctx.instances.get(rule, 0)} site(s), fewer than the "
                    f"{floor} confirmed on the reference tree; the rule no longer finds its instances")
    total = len(ctx.obligations)
    discharged = sum(1 for o in ctx.obligations if o.ok)
    wall = time.time() - started

    evidence_dir = evidence_dir or (VERIF / 'evidence')
    replay_dir = replay_dir or (VERIF / 'replay')
    samples = [o.as_dict() for o in ctx.obligations[:6]]
    # make sure every rule is represented in the samples
    seen_rules = {s['rule'] for s in samples}
    for o in ctx.obligations:
        if o.rule not in seen_rules:
            samples.append(o.as_dict())
            seen_rules.add(o.rule)
    coverage = {
        'explanation': (
            f"Static analysis of {len(ctx.p.modules)} parsed modules of /repo/src/emsarray; "
            f"{len(ctx.rule_texts)} rules produced {total} obligations over "
            f"{len(ctx.functions_analysed)} functions. An obligation is a structural fact the "
            f"property needs on every path/input; it is established from the syntax tree, the "
            f"resolved call graph, per-function CFGs, value flow and abstract interpretation. "
            f"Nothing from emsarray is imported or executed."),
        'obligations': total,
        'discharged': discharged,
        'known_findings': len(known_hits),
        'violations': len(violations),
        'rules': ctx.rule_texts,
        'rule_instances': ctx.instances,
        'rule_instance_floors': ctx.floors,
        'files_parsed': len(ctx.p.modules),
        'functions_analysed': sorted(ctx.functions_analysed),
        'samples': samples,
        'all_obligations': [o.as_dict() for o in ctx.obligations],
        'checker_cmd': f"/venv/bin/python -m emsverif check {ctx.prop}",
        'trusted_base': ctx.assumptions,
        'notes': ctx.notes,
        'normal_forms_applied': dict(sorted(getattr(ctx.p, 'normal_forms', {}).items())),
        'helpers_inlined': list(getattr(ctx.p, 'inlined', [])),
        'private_renames': list(getattr(ctx.p, 'private_renames', [])),
    }
    if extra_coverage:
        coverage.update(extra_coverage)
    evidence = {
        'property_id': ctx.prop,
        'tier': ctx.tier,
        'seed': int(seed),
        'level': 'other',
        'coverage': coverage,
        'assumptions': ctx.assumptions,
        'wall_s': round(wall, 3),
        'violations': len(violations),
    }
    if write_evidence:
        evidence_dir.mkdir(parents=True, exist_ok=True)
        (evidence_dir / f"{ctx.prop}.json").write_text(json.dumps(evidence, indent=1, default=str) + '\n')

    if not quiet:
        print(f"[{ctx.prop}] tier={ctx.tier} modules={len(ctx.p.modules)} functions={len(ctx.functions_analysed)} "
              f"rules={len(ctx.rule_texts)} obligations={total} discharged={discharged} "
              f"known={len(known_hits)} violations={len(violations)} wall={wall:.2f}s")
        for rule in sorted(ctx.rule_texts):
            n = ctx.instances.get(rule, 0)
            bad = sum(1 for o in ctx.obligations if o.rule == rule and not o.ok)
            print(f"  {rule}: {n} obligation(s), {n - bad} discharged (floor {ctx.floors.get(rule)})")
    for ob, entry in known_hits:
        print(f"KNOWN-FINDING: property={ctx.prop} {ob.rule} {ob.function}: {ob.construct} -- {entry.get('what', '')}")
    if violations:
        replay_dir.mkdir(parents=True, exist_ok=True)
        replay = replay_dir / f"{ctx.prop}.txt"
        lines = [f"property {ctx.prop}: {len(violations)} violated obligation(s)", ""]
        for ob in violations:
            lines += [f"{ob.site}", f"  rule      {ob.rule}: {ctx.rule_texts.get(ob.rule, '')}",
                      f"  requires  {ob.text}", f"  construct {ob.construct}",
                      f"  detail    {ob.detail}", ""]
        replay.write_text('\n'.join(lines))
        for ob in violations:
            print(f"  VIOLATED {ob.rule} at {ob.site}: {ob.text} :: {ob.construct} {('-- ' + ob.detail) if ob.detail else ''}")
        print(f"VIOLATION property={ctx.prop} replay={replay}")
        return 1
    return 0
