"""E9 - effects: writes through aliases of a value, and non-canonical byte/value sources."""
from __future__ import annotations

import ast
from typing import Iterator, Optional

from .flow import Flow
from .model import FuncInfo, dotted, norm_text, walk_no_nested

MUTATORS = {
    'pop', 'popitem', 'update', 'clear', 'setdefault', 'append', 'extend', 'insert', 'remove', 'sort', 'reverse',
    'fill', 'put', 'itemset', 'resize', 'setflags', '__setitem__', '__delitem__', 'setncattr', 'add', 'discard',
}
FRESH_METHODS = {'copy', 'deepcopy', '__copy__', '__deepcopy__', 'to_dataset', 'to_dataframe', 'astype', 'tolist',
                 'drop_vars', 'drop_dims', 'assign', 'assign_coords', 'merge', 'rename', 'set_coords', 'reset_coords',
                 'where', 'fillna', 'cumsum', 'argmax', 'argmin', 'any', 'all', 'sum', 'mean', 'max', 'min', 'items',
                 'keys', 'get', 'lower', 'upper', 'split', 'format', 'difference', 'union', 'intersection',
                 'issuperset', 'issubset', 'isdisjoint', 'compressed', 'filled', 'to_numpy'}
# methods returning a new container object whose *attrs/encoding dictionaries and data may be shared*:
VIEW_METHODS = {'isel', 'sel', 'squeeze', 'transpose', 'expand_dims', 'values', 'variables', 'data_vars', 'coords'}

# numpy constructors: does the result own its data?  (copy= overrides the default)
INPLACE_FIRST_ARGUMENT = {'copyto', 'put', 'place', 'putmask', 'fill_diagonal', 'put_along_axis', 'shuffle'}
INPLACE_WHEN_NOT_COPYING = {'nan_to_num'}
COPY_DEFAULT_TRUE = {'array', 'masked_invalid', 'masked_equal', 'masked_where', 'masked_values', 'copy', 'full_like', 'zeros_like', 'empty_like'}
COPY_DEFAULT_FALSE = {'asarray', 'asanyarray', 'masked_array', 'MaskedArray', 'ascontiguousarray', 'atleast_1d', 'ravel', 'reshape', 'transpose', 'squeeze'}

# functions of these libraries return new objects (those that can return views are listed above)
THIRD_PARTY_FRESH = {'numpy', 'np', 'shapely', 'pandas', 'itertools', 'functools', 'json', 'math', 'operator', 'xarray', 'cftime', 'pytz', 'hashlib'}

NONCANONICAL_CALLS = {
    'hash': 'hash() is randomised per process for str/bytes',
    'id': 'id() is an address',
    'repr': 'repr() of arbitrary objects is not canonical',
    'marshal.dumps': 'marshal output encodes interning/reference flags and is not stable for equal values',
    'marshal.dump': 'marshal output encodes interning/reference flags',
    'pickle.dumps': 'pickle output depends on memoisation and protocol',
    'pickle.dump': 'pickle output depends on memoisation and protocol',
    'time.time': 'wall clock',
    'time.perf_counter': 'clock',
    'time.monotonic': 'clock',
    'datetime.datetime.now': 'wall clock',
    'datetime.datetime.today': 'wall clock',
    'datetime.date.today': 'wall clock',
    'os.getpid': 'process id',
    'os.urandom': 'random bytes',
    'uuid.uuid1': 'random', 'uuid.uuid4': 'random',
    'random.random': 'random', 'random.randint': 'random', 'random.choice': 'random', 'random.shuffle': 'random',
    'numpy.random.rand': 'random', 'numpy.random.random': 'random', 'numpy.random.default_rng': 'random',
    'os.getenv': 'environment', 'os.environ.get': 'environment',
    'object.__hash__': 'address based',
}
NONCANONICAL_PREFIXES = ('random.', 'numpy.random.', 'secrets.', 'uuid.')
NONCANONICAL_NAMES = {'os.environ': 'environment'}


def roots_of(flow: Flow, expr: ast.AST, depth: int = 10, _seen: Optional[set] = None) -> set[str]:
    """Which parameters (param:<name>) the object denoted by expr may alias; 'fresh' for new objects."""
    if _seen is None:
        _seen = set()
    if depth <= 0:
        return {'unknown'}
    if isinstance(expr, ast.Name):
        out: set[str] = set()
        defs = flow.defs_of(expr)
        if not defs:
            return {'global:' + expr.id}
        for d in defs:
            if id(d) in _seen:
                continue
            _seen.add(id(d))
            if d.kind == 'param':
                out.add('param:' + d.name)
            elif d.kind in ('assign', 'unpack', 'walrus', 'with', 'iter') and d.value is not None:
                out |= roots_of(flow, d.value, depth - 1, _seen)
            elif d.kind == 'aug':
                out.add('fresh')
            else:
                out.add('fresh')
        return out or {'fresh'}
    if isinstance(expr, (ast.Attribute, ast.Subscript)):
        return roots_of(flow, expr.value, depth, _seen)
    if isinstance(expr, ast.Starred):
        return roots_of(flow, expr.value, depth, _seen)
    if isinstance(expr, ast.Call):
        f = expr.func
        fname = (dotted(f) or '').rsplit('.', 1)[-1]
        if isinstance(f, ast.Attribute) and _is_module_function(flow, f) and fname in (COPY_DEFAULT_TRUE | COPY_DEFAULT_FALSE) and expr.args:
            copy_kw = next((k.value for k in expr.keywords if k.arg == 'copy'), None)
            copies = (fname in COPY_DEFAULT_TRUE) if copy_kw is None else (getattr(copy_kw, 'value', None) is True)
            if copy_kw is not None and not isinstance(copy_kw, ast.Constant):
                copies = False
            if copies:
                return {'fresh'}
            return roots_of(flow, expr.args[0], depth - 1, _seen)
        if isinstance(f, ast.Attribute) and _is_module_function(flow, f) and (dotted(f) or '').split('.')[0] in THIRD_PARTY_FRESH \
                and not any(k.arg == 'out' for k in expr.keywords):
            return {'fresh'}
        if isinstance(f, ast.Attribute) and _is_module_function(flow, f):
            out = set()
            for a in expr.args:
                out |= roots_of(flow, a, depth - 1, _seen)
            return (out | {'fresh'}) if out else {'fresh'}
        if isinstance(f, ast.Attribute):
            if f.attr in FRESH_METHODS:
                return {'fresh'}
            # unknown method on an aliased receiver: conservatively an alias (views share storage)
            return roots_of(flow, f.value, depth, _seen)
        name = dotted(f) or ''
        if name in ('list', 'tuple', 'dict', 'set', 'frozenset', 'sorted', 'len', 'str', 'int', 'float', 'bool', 'repr'):
            return {'fresh'}
        if name in ('cast', 'typing.cast') and len(expr.args) == 2:
            return roots_of(flow, expr.args[1], depth, _seen)
        if name in ('next', 'iter', 'reversed', 'enumerate', 'zip', 'map', 'filter', 'getattr'):
            out = set()
            for a in expr.args:
                out |= roots_of(flow, a, depth - 1, _seen)
            return out or {'fresh'}
        # plain function call: result may alias its arguments (name_to_data_array returns dataset[name])
        out = set()
        for a in expr.args:
            out |= roots_of(flow, a, depth - 1, _seen)
        return (out | {'fresh'}) if out else {'fresh'}
    if isinstance(expr, (ast.ListComp, ast.GeneratorExp, ast.SetComp, ast.DictComp, ast.Dict, ast.List, ast.Tuple, ast.Set,
                         ast.Constant, ast.BinOp, ast.UnaryOp, ast.Compare, ast.BoolOp, ast.JoinedStr, ast.Lambda)):
        if isinstance(expr, ast.BoolOp):
            out = set()
            for v in expr.values:
                out |= roots_of(flow, v, depth - 1, _seen)
            return out
        return {'fresh'}
    if isinstance(expr, ast.IfExp):
        return roots_of(flow, expr.body, depth - 1, _seen) | roots_of(flow, expr.orelse, depth - 1, _seen)
    return {'unknown'}


def _is_module_function(flow: Flow, f: ast.Attribute) -> bool:
    """`utils.name_to_data_array(...)`: the receiver chain is rooted in a module level name."""
    node = f.value
    while isinstance(node, ast.Attribute):
        node = node.value
    if isinstance(node, ast.Name):
        ds = flow.defs_of(node)
        return not ds or all(d.kind == 'import' for d in ds)
    return False


def writes_in(fi: FuncInfo, flow: Flow) -> Iterator[tuple[ast.AST, ast.AST, str]]:
    """(statement/call node, written object expr, how) for every store through an object."""
    for node in ast.walk(fi.node):
        if isinstance(node, ast.AugAssign) and isinstance(node.target, ast.Name):
            # `x += y` mutates an array parameter in place
            ann = None
            a = fi.node.args
            for arg in a.posonlyargs + a.args + a.kwonlyargs:
                if arg.arg == node.target.id and arg.annotation is not None:
                    ann = ast.unparse(arg.annotation)
            if ann and any(t in ann for t in ('ndarray', 'DataArray', 'Dataset', 'MaskedArray', 'list', 'dict', 'set')):
                fake = ast.Name(id=node.target.id, ctx=ast.Load())
                ast.copy_location(fake, node.target)
                flow.uses[id(fake)] = list(flow.env_at.get(id(node), {}).get(node.target.id, []))
                yield node, fake, 'augmented assignment ' + norm_text(node)
            continue
        if isinstance(node, (ast.Assign, ast.AnnAssign, ast.AugAssign)):
            targets = node.targets if isinstance(node, ast.Assign) else [node.target]
            stack = list(targets)
            while stack:
                t = stack.pop()
                if isinstance(t, (ast.Tuple, ast.List)):
                    stack.extend(t.elts)
                elif isinstance(t, ast.Starred):
                    stack.append(t.value)
                elif isinstance(t, (ast.Attribute, ast.Subscript)):
                    yield node, t.value, 'store ' + norm_text(t)
        elif isinstance(node, ast.Delete):
            for t in node.targets:
                if isinstance(t, (ast.Attribute, ast.Subscript)):
                    yield node, t.value, 'delete ' + norm_text(t)
        elif isinstance(node, ast.Call) and isinstance(node.func, ast.Attribute) and node.func.attr in MUTATORS:
            yield node, node.func.value, 'in-place ' + node.func.attr + '()'
        elif isinstance(node, ast.Call) and dotted(node.func) in ('setattr', 'delattr') and node.args:
            yield node, node.args[0], dotted(node.func) + '()'
        elif isinstance(node, ast.Call) and isinstance(node.func, ast.Attribute) and _is_module_function(flow, node.func):
            # library functions that write into an argument: numpy.copyto(dst, ...), numpy.put(a, ...), an `out=` array,
            # numpy.nan_to_num(x, copy=False) ...
            fname = node.func.attr
            if fname in INPLACE_FIRST_ARGUMENT and node.args:
                yield node, node.args[0], f"in-place {dotted(node.func)}()"
            elif fname in INPLACE_WHEN_NOT_COPYING and node.args:
                copy_kw = next((k.value for k in node.keywords if k.arg == 'copy'), None)
                if copy_kw is not None and getattr(copy_kw, 'value', None) is not True:
                    yield node, node.args[0], f"in-place {dotted(node.func)}(copy={norm_text(copy_kw)})"
            for k in node.keywords:
                if k.arg == 'out' and not (isinstance(k.value, ast.Constant) and k.value.value is None):
                    for o in (k.value.elts if isinstance(k.value, ast.Tuple) else [k.value]):
                        yield node, o, f"{dotted(node.func)}(out=...)"


def writes_through(fi: FuncInfo, flow: Flow, param: str) -> list[tuple[ast.AST, str]]:
    out = []
    for node, obj, how in writes_in(fi, flow):
        if ('param:' + param) in roots_of(flow, obj):
            out.append((node, how))
    return out


def noncanonical_sources(fi: FuncInfo, qualify) -> list[tuple[ast.AST, str, str]]:
    """(node, qualified name, reason) for every call/name of the non-canonical catalogue in fi."""
    out = []
    for node in ast.walk(fi.node):
        if isinstance(node, ast.Call):
            q = qualify(node.func) or dotted(node.func) or ''
            if q in NONCANONICAL_CALLS:
                out.append((node, q, NONCANONICAL_CALLS[q]))
            elif any(q.startswith(pre) for pre in NONCANONICAL_PREFIXES):
                out.append((node, q, 'random source'))
        elif isinstance(node, ast.Attribute):
            q = qualify(node) or ''
            if q in NONCANONICAL_NAMES:
                out.append((node, q, NONCANONICAL_NAMES[q]))
    return out
