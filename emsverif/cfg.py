"""E4 - statement level control flow graph with dominators, hand built.

Nodes are the simple statements of one function plus the *headers* of compound
statements (the `if` test, the `for` iterator, the `with` items, ...), and three
synthetic nodes: ENTRY, EXIT (normal return / fall off the end) and RAISE (an
exception leaves the function).  Inside a `try` body every statement has an edge to
every handler (an exception may occur anywhere); outside a `try`, implicit
exceptions are not modelled - only explicit `raise` statements reach RAISE.

Queries:
  dominates(a, b)       every path ENTRY -> b passes a
  postdominates(a, b)   every path b -> EXIT passes a          (normal exits only)
  exits()               list of (kind, node) with kind in return / fall / raise
  reachable_without(src, dst, blocked)   is there a path src -> dst avoiding `blocked`
"""
from __future__ import annotations

import ast
from typing import Iterable, Optional

from .model import FuncInfo

ENTRY = 'ENTRY'
EXIT = 'EXIT'
RAISE = 'RAISE'


class CFG:
    def __init__(self, fi: FuncInfo):
        self.fi = fi
        self.succ: dict[object, set] = {ENTRY: set(), EXIT: set(), RAISE: set()}
        self.nodes: dict[int, ast.AST] = {}
        self.fall_nodes: set[int] = set()       # nodes with an edge to EXIT by falling off the end
        self._handlers: list[list] = []         # stack of handler entry lists
        self._finally: list = []
        self._loops: list[tuple[object, list]] = []   # (continue target, break collectors)
        last = self._block(fi.node.body, [ENTRY])
        for n in last:
            self._edge(n, EXIT)
            if n != ENTRY:
                self.fall_nodes.add(n)
        if ENTRY in last:
            self._edge(ENTRY, EXIT)
        self._dom = None
        self._pdom = None

    # ------------------------------------------------------------ building
    def _id(self, node: ast.AST) -> int:
        self.nodes[id(node)] = node
        self.succ.setdefault(id(node), set())
        return id(node)

    def _edge(self, a, b) -> None:
        self.succ.setdefault(a, set()).add(b)
        self.succ.setdefault(b, set())

    def _link(self, preds: Iterable, node) -> None:
        for p in preds:
            self._edge(p, node)

    def _exc_edges(self, n) -> None:
        """A statement inside a try body may jump to any enclosing handler."""
        if self._handlers:
            for h in self._handlers[-1]:
                self._edge(n, h)

    def _block(self, stmts: list[ast.stmt], preds: list) -> list:
        for st in stmts:
            preds = self._stmt(st, preds)
        return preds

    def _stmt(self, st: ast.stmt, preds: list) -> list:
        n = self._id(st)
        self._link(preds, n)
        self._exc_edges(n)
        if isinstance(st, ast.Return):
            self._edge(n, EXIT)
            return []
        if isinstance(st, ast.Raise):
            if self._handlers:
                # may be caught by an enclosing handler; conservatively also leaves
                self._edge(n, RAISE)
            else:
                self._edge(n, RAISE)
            return []
        if isinstance(st, ast.If):
            out = self._block(st.body, [n])
            out2 = self._block(st.orelse, [n]) if st.orelse else [n]
            return out + out2
        if isinstance(st, (ast.For, ast.AsyncFor, ast.While)):
            breaks: list = []
            self._loops.append((n, breaks))
            body_out = self._block(st.body, [n])
            self._loops.pop()
            self._link(body_out, n)
            out = [n]
            if st.orelse:
                out = self._block(st.orelse, [n])
            return out + breaks
        if isinstance(st, ast.Break):
            if self._loops:
                self._loops[-1][1].append(n)
            return []
        if isinstance(st, ast.Continue):
            if self._loops:
                self._edge(n, self._loops[-1][0])
            return []
        if isinstance(st, (ast.With, ast.AsyncWith)):
            return self._block(st.body, [n])
        if isinstance(st, ast.Try):
            handler_entries = []
            for h in st.handlers:
                handler_entries.append(self._id(h))
            self._handlers.append(handler_entries)
            for h in handler_entries:
                self._edge(n, h)
            body_out = self._block(st.body, [n])
            self._handlers.pop()
            if st.orelse:
                body_out = self._block(st.orelse, body_out)
            outs = list(body_out)
            for h in st.handlers:
                self._exc_edges(id(h))
                outs += self._block(h.body, [id(h)])
            if st.finalbody:
                outs = self._block(st.finalbody, outs)
            return outs
        if hasattr(ast, 'Match') and isinstance(st, ast.Match):  # pragma: no cover
            outs = [n]
            for case in st.cases:
                outs += self._block(case.body, [n])
            return outs
        # simple statement (Assign, Expr, Assert, Delete, Pass, nested def, import ...)
        return [n]

    # ------------------------------------------------------------ queries
    def node(self, ident) -> Optional[ast.AST]:
        return self.nodes.get(ident)

    def _preds(self) -> dict:
        pred: dict = {k: set() for k in self.succ}
        for a, bs in self.succ.items():
            for b in bs:
                pred.setdefault(b, set()).add(a)
        return pred

    def _dominators(self, entry, succ: dict) -> dict:
        pred: dict = {k: set() for k in succ}
        for a, bs in succ.items():
            for b in bs:
                pred.setdefault(b, set()).add(a)
        # restrict to nodes reachable from entry
        reach = set()
        todo = [entry]
        while todo:
            x = todo.pop()
            if x in reach:
                continue
            reach.add(x)
            todo.extend(succ.get(x, ()))
        dom = {x: set(reach) for x in reach}
        dom[entry] = {entry}
        changed = True
        while changed:
            changed = False
            for x in reach:
                if x == entry:
                    continue
                ps = [dom[p] for p in pred.get(x, ()) if p in reach]
                new = set.intersection(*ps) if ps else set()
                new = new | {x}
                if new != dom[x]:
                    dom[x] = new
                    changed = True
        return dom

    def dominates(self, a: ast.AST, b: ast.AST) -> bool:
        if self._dom is None:
            self._dom = self._dominators(ENTRY, self.succ)
        return id(a) in self._dom.get(id(b), set())

    def postdominates(self, a: ast.AST, b: ast.AST) -> bool:
        """Every path from b to the normal EXIT passes through a."""
        if self._pdom is None:
            rev: dict = {k: set() for k in self.succ}
            for x, ys in self.succ.items():
                for y in ys:
                    rev.setdefault(y, set()).add(x)
            self._pdom = self._dominators(EXIT, rev)
        return id(a) in self._pdom.get(id(b), set())

    def reachable(self, src, dst, blocked: Iterable = ()) -> bool:
        blocked = {id(b) if isinstance(b, ast.AST) else b for b in blocked}
        src = id(src) if isinstance(src, ast.AST) else src
        dst = id(dst) if isinstance(dst, ast.AST) else dst
        todo = [src]
        seen = set()
        while todo:
            x = todo.pop()
            if x in seen:
                continue
            seen.add(x)
            for y in self.succ.get(x, ()):
                if y == dst:
                    return True
                if y in blocked:
                    continue
                todo.append(y)
        return False

    def must_pass(self, via: ast.AST, target, *, src=ENTRY) -> bool:
        """Every path src -> target passes through `via` (target may be EXIT)."""
        return not self.reachable(src, target, blocked=[via])

    def exits(self) -> list[tuple[str, Optional[ast.AST]]]:
        out = []
        for nid, node in self.nodes.items():
            ss = self.succ.get(nid, ())
            if isinstance(node, ast.Return):
                out.append(('return', node))
            elif isinstance(node, ast.Raise):
                out.append(('raise', node))
            elif EXIT in ss:
                out.append(('fall', node))
        return out

    def enclosing(self, node: ast.AST) -> Optional[ast.stmt]:
        """The statement of this function that contains expression `node`."""
        for st in self.nodes.values():
            if isinstance(st, ast.stmt) or isinstance(st, ast.ExceptHandler):
                for sub in _header_nodes(st):
                    if sub is node:
                        return st
        return None


def _header_nodes(st: ast.AST):
    """Expression nodes evaluated *at* a CFG node (not in nested statement bodies)."""
    if isinstance(st, ast.If) or isinstance(st, ast.While):
        yield from ast.walk(st.test)
    elif isinstance(st, (ast.For, ast.AsyncFor)):
        yield from ast.walk(st.iter)
        yield from ast.walk(st.target)
    elif isinstance(st, (ast.With, ast.AsyncWith)):
        for item in st.items:
            yield from ast.walk(item)
    elif isinstance(st, ast.Try):
        return
    elif isinstance(st, ast.ExceptHandler):
        if st.type is not None:
            yield from ast.walk(st.type)
    elif isinstance(st, (ast.FunctionDef, ast.AsyncFunctionDef, ast.ClassDef)):
        for d in st.decorator_list:
            yield from ast.walk(d)
    else:
        yield from ast.walk(st)


def stmt_of(fi: FuncInfo, node: ast.AST) -> Optional[ast.stmt]:
    """Innermost statement of fi containing `node` in its header."""
    best = None

    def rec(stmts):
        nonlocal best
        for st in stmts:
            for sub in _header_nodes(st):
                if sub is node:
                    best = st
                    return True
            for fld in ('body', 'orelse', 'finalbody'):
                subs = getattr(st, fld, None)
                if isinstance(subs, list) and subs and isinstance(subs[0], ast.stmt) \
                        and not isinstance(st, (ast.FunctionDef, ast.AsyncFunctionDef, ast.ClassDef)):
                    if rec(subs):
                        return True
            if isinstance(st, ast.Try):
                for h in st.handlers:
                    if rec(h.body):
                        return True
        return False
    rec(fi.node.body)
    return best
