"""E6 - abstract interpretation of array building code over labelled axes.

An abstract array is `Arr(axes, body)`:
  axes  ordered list of Axis(key, size) - size is a linear form over size symbols,
        or a Merged axis recording the row-major order of the axes it replaced;
  body  an element expression in terms of the axis keys: which source array each
        element comes from and with which index offsets (Leaf), selected by a
        constant-size axis (Case), combined element-wise (Op), or constant (Const).

This is shape / dependence analysis in the style of array dependence analysis in
compilers: no value is ever computed and no path is enumerated.  Unknown operations
yield TOP, and a rule that needs a fact about TOP reports that it cannot be established.
"""
from __future__ import annotations

import ast
import itertools
from dataclasses import dataclass, field
from fractions import Fraction
from typing import Callable, Optional, Sequence

from .linear import Lin, const, symbol
from .model import FuncInfo, const_value, dotted, kwarg, norm_text, unparse


class Top:
    def __init__(self, why: str):
        self.why = why

    def __repr__(self):
        return f"TOP({self.why})"


_counter = itertools.count(1)


def fresh(prefix: str = 'a') -> str:
    return f"{prefix}{next(_counter)}"


@dataclass(frozen=True)
class Axis:
    key: str
    size: object                      # Lin
    merged: tuple = ()                # for merged axes: tuple[Axis] in row-major order

    def show(self) -> str:
        if self.merged:
            return '[' + ' x '.join(a.show() for a in self.merged) + ']'
        return f"{self.size.show() if isinstance(self.size, Lin) else self.size}"


# ---- bodies -----------------------------------------------------------------

@dataclass(frozen=True)
class Leaf:
    src: str
    index: tuple                      # tuple[Lin] over axis keys

    def subst(self, mapping: dict) -> 'Leaf':
        return Leaf(self.src, tuple(_subst_lin(i, mapping) for i in self.index))


@dataclass(frozen=True)
class Case:
    axis: str
    alts: tuple

    def subst(self, mapping: dict):
        if self.axis in mapping:
            m = mapping[self.axis]
            if m.is_const:
                k = int(m.const)
                if 0 <= k < len(self.alts):
                    return _subst(self.alts[k], mapping)
            # renamed (pure variable)
            syms = m.symbols()
            if len(syms) == 1 and m.get(syms[0]) == 1 and m.const == 0:
                return Case(syms[0], tuple(_subst(a, mapping) for a in self.alts))
            return Op('case-shifted', tuple(_subst(a, mapping) for a in self.alts))
        return Case(self.axis, tuple(_subst(a, mapping) for a in self.alts))


@dataclass(frozen=True)
class Op:
    name: str
    args: tuple

    def subst(self, mapping: dict):
        return Op(self.name, tuple(_subst(a, mapping) for a in self.args))


@dataclass(frozen=True)
class Const:
    value: object

    def subst(self, mapping: dict):
        return self


def _subst(body, mapping: dict):
    return body.subst(mapping)


def _subst_lin(l: Lin, mapping: dict) -> Lin:
    out = Lin()
    for k, v in l.items():
        if k in mapping:
            out = out + mapping[k].scale(v)
        else:
            out = out + Lin({k: v})
    return out.clean()


@dataclass
class Arr:
    axes: list
    body: object
    note: str = ''

    @property
    def ndim(self) -> int:
        return len(self.axes)

    def show(self) -> str:
        return '(' + ', '.join(a.show() for a in self.axes) + ')'

    def at(self, **fixed) -> object:
        """Body with some axes fixed to constants (by position name a0..)."""
        return self.body


def source(name: str, sizes: Sequence[Lin]) -> Arr:
    axes = [Axis(fresh(), s) for s in sizes]
    return Arr(axes, Leaf(name, tuple(symbol(a.key) for a in axes)))


def leaves(body) -> list[Leaf]:
    if isinstance(body, Leaf):
        return [body]
    if isinstance(body, Case):
        return [l for a in body.alts for l in leaves(a)]
    if isinstance(body, Op):
        return [l for a in body.args for l in leaves(a)]
    return []


def fix(body, axis_key: str, k: int):
    return _subst(body, {axis_key: const(k)})


# ---- operations ---------------------------------------------------------------

def _norm_axis(k: int, n: int) -> int:
    return k + n if k < 0 else k


def op_stack(arrs: Sequence[Arr], axis: int) -> object:
    if not arrs or any(not isinstance(a, Arr) for a in arrs):
        return Top('stack of a non-array')
    first = arrs[0]
    n = first.ndim
    for a in arrs[1:]:
        if a.ndim != n:
            return Top('stack of arrays with different rank')
        for x, y in zip(first.axes, a.axes):
            if bool(x.merged) != bool(y.merged):
                return Top('stack of a merged axis with a plain one')
            if x.merged:
                # two flattenings of the same grid: the same component sizes in the same order
                if len(x.merged) != len(y.merged) or any(p.size != q.size for p, q in zip(x.merged, y.merged)):
                    return Top(f"stack of arrays flattened over different grids {first.show()} vs {a.show()}")
            elif x.size != y.size:
                return Top(f"stack of arrays with different shapes {first.show()} vs {a.show()}")
    bodies = []
    for a in arrs:
        mapping = {}
        for x, y in zip(first.axes, a.axes):
            mapping[y.key] = symbol(x.key)
            if x.merged:
                for p, q in zip(x.merged, y.merged):
                    mapping[q.key] = symbol(p.key)
        bodies.append(_subst(a.body, mapping))
    c = Axis(fresh('c'), const(len(arrs)))
    pos = _norm_axis(axis, n + 1)
    axes = list(first.axes)
    axes.insert(pos, c)
    return Arr(axes, Case(c.key, tuple(bodies)))


def op_index(arr: Arr, items: Sequence) -> object:
    """items: list of ('int', k) | ('slice', lo, hi) | ('new',) | ('all',) with lo/hi int or None."""
    if not isinstance(arr, Arr):
        return arr
    axes = []
    mapping = {}
    pos = 0
    n_real = sum(1 for it in items if it[0] != 'new')
    if n_real > arr.ndim:
        return Top('too many indices')
    for it in items:
        if it[0] == 'new':
            axes.append(Axis(fresh(), const(1)))
            continue
        ax = arr.axes[pos]
        pos += 1
        if ax.merged:
            if it[0] == 'all':
                axes.append(ax)
                continue
            return Top('indexing a merged axis')
        if it[0] == 'all':
            axes.append(ax)
        elif it[0] == 'int':
            k = it[1]
            mapping[ax.key] = (ax.size + const(k)) if k < 0 else const(k)
        elif it[0] == 'slice':
            lo, hi = it[1], it[2]
            lo_l = const(0) if lo is None else ((ax.size + const(lo)) if lo < 0 else const(lo))
            hi_l = ax.size if hi is None else ((ax.size + const(hi)) if hi < 0 else const(hi))
            na = Axis(fresh(), (hi_l - lo_l))
            mapping[ax.key] = symbol(na.key) + lo_l
            axes.append(na)
        else:
            return Top('unsupported index')
    axes.extend(arr.axes[pos:])
    return Arr(axes, _subst(arr.body, mapping))


def op_take(arr: Arr, picks: Sequence[int], axis: int) -> object:
    """numpy.take(arr, [i0, i1, ...], axis=k) / arr[..., [i0, i1, ...], ...]: axis k is replaced by one entry per pick"""
    if not isinstance(arr, Arr):
        return arr
    k = _norm_axis(axis, arr.ndim)
    parts = []
    for i in picks:
        items = [('all',)] * k + [('int', int(i))]
        parts.append(op_index(arr, items))
    return op_stack(parts, k)


def op_expand_dims(arr: Arr, axis: int) -> object:
    if not isinstance(arr, Arr):
        return arr
    pos = _norm_axis(axis, arr.ndim + 1)
    axes = list(arr.axes)
    axes.insert(pos, Axis(fresh(), const(1)))
    return Arr(axes, arr.body)


def op_broadcast_to(arr: Arr, shape: Sequence[Lin]) -> object:
    if not isinstance(arr, Arr):
        return arr
    if len(shape) < arr.ndim:
        return Top('broadcast to a lower rank')
    lead = len(shape) - arr.ndim
    axes = [Axis(fresh(), s) for s in shape[:lead]]
    for ax, s in zip(arr.axes, shape[lead:]):
        if ax.size == s:
            axes.append(ax)
        elif ax.size == const(1):
            axes.append(Axis(fresh(), s))
        else:
            return Top(f"cannot broadcast an axis of size {ax.show()} to {s.show()}")
    return Arr(axes, arr.body)


def op_transpose(arr: Arr, perm: Optional[Sequence[int]]) -> object:
    if not isinstance(arr, Arr):
        return arr
    if perm is None:
        perm = list(reversed(range(arr.ndim)))
    if sorted(_norm_axis(p, arr.ndim) for p in perm) != list(range(arr.ndim)):
        return Top('invalid permutation')
    return Arr([arr.axes[_norm_axis(p, arr.ndim)] for p in perm], arr.body)


def op_reshape(arr: Arr, shape: Sequence, order: str = 'C') -> object:
    """shape: list of ints / Lin with at most one -1."""
    if not isinstance(arr, Arr):
        return arr
    if order != 'C':
        return Top(f"reshape with order={order!r}")
    shape = list(shape)
    if shape.count(-1) > 1:
        return Top('reshape with several -1')
    # match trailing entries with trailing axes
    axes = list(arr.axes)
    out_tail = []
    while shape and shape[-1] != -1 and axes:
        want = shape[-1]
        want_l = const(want) if isinstance(want, int) else want
        if axes[-1].size == want_l:
            out_tail.insert(0, axes.pop())
            shape.pop()
        else:
            break
    out_head = []
    while shape and shape[0] != -1 and axes:
        want = shape[0]
        want_l = const(want) if isinstance(want, int) else want
        if axes[0].size == want_l:
            out_head.append(axes.pop(0))
            shape.pop(0)
        else:
            break
    if shape == [-1]:
        if len(axes) == 1:
            return Arr(out_head + axes + out_tail, arr.body)
        if not axes:
            return Top('nothing left to merge')
        flat = []
        for a in axes:
            flat.extend(a.merged if a.merged else [a])
        m = Axis(fresh('m'), None, tuple(flat))
        return Arr(out_head + [m] + out_tail, arr.body)
    if not shape and not axes:
        return Arr(out_head + out_tail, arr.body)
    return Top(f"reshape {arr.show()} -> {shape} is not a merge of leading axes")


def op_flatten(arr: Arr) -> object:
    return op_reshape(arr, [-1])


def op_elementwise(name: str, args: Sequence) -> object:
    arrs = [a for a in args if isinstance(a, Arr)]
    if any(isinstance(a, Top) for a in args):
        return next(a for a in args if isinstance(a, Top))
    if not arrs:
        return Const(name)
    rank = max(a.ndim for a in arrs)
    first = next(a for a in arrs if a.ndim == rank)
    bodies = []
    for a in args:
        if isinstance(a, Arr):
            if a.ndim > rank:
                return Top('broadcast rank')
            lead = rank - a.ndim
            mapping = {}
            for x, y in zip(first.axes[lead:], a.axes):
                if y.size == x.size:
                    mapping[y.key] = symbol(x.key)
                elif y.size == const(1):
                    mapping[y.key] = const(0)
                else:
                    return Top(f"element-wise op on shapes {first.show()} and {a.show()}")
            bodies.append(_subst(a.body, mapping))
        else:
            bodies.append(a if isinstance(a, (Const, Leaf, Case, Op)) else Const(a))
    return Arr(list(first.axes), Op(name, tuple(bodies)))


def op_pad(arr: Arr, widths: Sequence[tuple[int, int]]) -> object:
    if not isinstance(arr, Arr) or len(widths) != arr.ndim:
        return Top('pad width does not match rank')
    axes = []
    mapping = {}
    for ax, (b, a) in zip(arr.axes, widths):
        if b == 0 and a == 0:
            axes.append(ax)
            continue
        na = Axis(fresh(), ax.size + const(b + a))
        mapping[ax.key] = symbol(na.key) - const(b)
        axes.append(na)
    return Arr(axes, Op('pad', (_subst(arr.body, mapping),)))


def op_meshgrid(x: Arr, y: Arr, indexing: str = 'xy') -> object:
    if not (isinstance(x, Arr) and isinstance(y, Arr) and x.ndim == 1 and y.ndim == 1):
        return Top('meshgrid of non 1-D inputs')
    if indexing == 'xy':
        axes = [y.axes[0], x.axes[0]]
    elif indexing == 'ij':
        axes = [x.axes[0], y.axes[0]]
    else:
        return Top('meshgrid indexing')
    return ('tuple', [Arr(list(axes), x.body), Arr(list(axes), y.body)])


def merged_order(axis: Axis) -> list[Axis]:
    return list(axis.merged) if axis.merged else [axis]


# =============================================================================
# the interpreter
# =============================================================================

class Polygons:
    """Marker value: result of utils.make_polygons_with_holes(points)."""

    def __init__(self, points, call):
        self.points = points
        self.call = call


class DataArrayVal:
    def __init__(self, data, dims, call):
        self.data = data
        self.dims = dims          # list of ast nodes or None
        self.call = call


class ArrayInterp:
    """Interpret the straight-line array code of one function over the abstract domain."""

    def __init__(self, fi: FuncInfo, qualify: Callable[[ast.AST], Optional[str]],
                 source_of: Callable[[ast.AST, 'ArrayInterp'], object], env: Optional[dict] = None):
        self.fi = fi
        self.qualify = qualify
        self.source_of = source_of
        self.env: dict = dict(env or {})
        self.returns: list = []
        self.skipped: list[str] = []
        self.trace: list[str] = []
        self.alt_returns: list[ast.Return] = []
        self.statements: dict[str, ast.stmt] = {}
        self.concats: dict = {}

    # ---------------------------------------------------------------- statements
    def run(self):
        self._block(self.fi.body)
        return self.returns

    def _block(self, stmts) -> bool:
        for st in stmts:
            if self._stmt(st):
                return True
        return False

    def _stmt(self, st: ast.stmt) -> bool:
        if isinstance(st, (ast.Assign, ast.AnnAssign)):
            value = st.value
            if value is None:
                return False
            targets = st.targets if isinstance(st, ast.Assign) else [st.target]
            v = self.eval(value)
            for t in targets:
                self._bind(t, v, st)
            return False
        if isinstance(st, ast.Return):
            self.returns.append((st, self.eval(st.value) if st.value is not None else None))
            return True
        if isinstance(st, (ast.Assert, ast.Pass)):
            return False
        if isinstance(st, ast.Expr):
            if isinstance(st.value, ast.Call):
                self.eval(st.value)
            return False
        if isinstance(st, ast.With):
            names = [self.qualify(i.context_expr.func) if isinstance(i.context_expr, ast.Call) else None for i in st.items]
            if any(n and n.endswith('suppress') for n in names):
                self.alt_returns.extend(n for n in ast.walk(st) if isinstance(n, ast.Return))
                self.skipped.append(f"with suppress(...) block at line {st.lineno}")
                return False
            return self._block(st.body)
        if isinstance(st, ast.If):
            self.skipped.append(f"if {norm_text(st.test)[:50]} at line {st.lineno}")
            return False
        if isinstance(st, (ast.For, ast.While, ast.Try)):
            self.skipped.append(f"{type(st).__name__} at line {st.lineno}")
            return False
        if isinstance(st, ast.AugAssign):
            if isinstance(st.target, ast.Name):
                cur = self.env.get(st.target.id)
                self.env[st.target.id] = op_elementwise(type(st.op).__name__, [cur, self.eval(st.value)]) \
                    if isinstance(cur, Arr) else Top('augmented assignment')
            return False
        return False

    def _bind(self, target, value, st) -> None:
        if isinstance(target, ast.Name):
            self.env[target.id] = value
            self.statements[target.id] = st
            if isinstance(value, Arr):
                self.trace.append(f"{target.id}: {value.show()}")
            elif isinstance(value, Top):
                self.trace.append(f"{target.id}: {value!r}")
        elif isinstance(target, (ast.Tuple, ast.List)):
            if isinstance(value, tuple) and value and value[0] == 'tuple' and len(value[1]) == len(target.elts):
                for t, v in zip(target.elts, value[1]):
                    self._bind(t, v, st)
            else:
                for t in target.elts:
                    self._bind(t, Top('unpacking an unknown value'), st)
        elif isinstance(target, ast.Subscript):
            # masked / indexed assignment keeps shape
            base = target.value
            if isinstance(base, ast.Name) and isinstance(self.env.get(base.id), Arr):
                cur = self.env[base.id]
                self.env[base.id] = Arr(list(cur.axes), Op('setitem', (cur.body,)), cur.note)

    # ---------------------------------------------------------------- expressions
    def eval(self, e: ast.AST):
        if e is None:
            return None
        if isinstance(e, ast.Constant):
            return e.value
        v = const_value(e, _NOCONST)
        if v is not _NOCONST:
            return v
        if isinstance(e, ast.Name):
            if e.id in self.env:
                return self.env[e.id]
            return self.source_of(e, self)
        if isinstance(e, (ast.Tuple, ast.List)):
            return ('tuple', [self.eval(x) for x in e.elts])
        if isinstance(e, ast.Attribute):
            if e.attr in ('values', 'data'):
                inner = self.eval(e.value)
                if isinstance(inner, DataArrayVal):
                    return inner.data
                if isinstance(inner, (Arr, Top)):
                    return inner
                return self.source_of(e, self)
            if e.attr == 'T':
                inner = self.eval(e.value)
                return op_transpose(inner, None) if isinstance(inner, Arr) else Top('.T of unknown')
            if e.attr == 'shape':
                inner = self.eval(e.value)
                if isinstance(inner, Arr) and not any(a.merged for a in inner.axes):
                    return ('tuple', [a.size for a in inner.axes])
            if e.attr in ('size', 'ndim'):
                inner = self.eval(e.value) if not isinstance(e.value, ast.Name) or e.value.id in self.env else None
                if isinstance(inner, Arr):
                    if e.attr == 'ndim':
                        return inner.ndim
                    return ('size', inner)
            return self.source_of(e, self)
        if isinstance(e, ast.Subscript):
            return self._subscript(e)
        if isinstance(e, ast.Call):
            return self._call(e)
        if isinstance(e, ast.BinOp):
            a, b = self.eval(e.left), self.eval(e.right)
            if isinstance(a, Lin) or isinstance(b, Lin):
                la = a if isinstance(a, Lin) else (const(a) if isinstance(a, int) else None)
                lb = b if isinstance(b, Lin) else (const(b) if isinstance(b, int) else None)
                if la is not None and lb is not None:
                    if isinstance(e.op, ast.Add):
                        return la + lb
                    if isinstance(e.op, ast.Sub):
                        return la - lb
                    if isinstance(e.op, ast.Mult) and (la.is_const or lb.is_const):
                        return lb.scale(la.const) if la.is_const else la.scale(lb.const)
            if isinstance(a, (int, float)) and isinstance(b, (int, float)) and not isinstance(a, bool):
                try:
                    return {ast.Add: a + b, ast.Sub: a - b, ast.Mult: a * b}.get(type(e.op), Top('const op'))
                except Exception:
                    return Top('const op')
            return op_elementwise(type(e.op).__name__, [a, b])
        if isinstance(e, ast.UnaryOp):
            return op_elementwise(type(e.op).__name__, [self.eval(e.operand)])
        if isinstance(e, ast.Compare):
            return op_elementwise('cmp', [self.eval(e.left)] + [self.eval(c) for c in e.comparators])
        if isinstance(e, ast.BoolOp):
            return op_elementwise('bool', [self.eval(v) for v in e.values])
        if isinstance(e, (ast.ListComp, ast.GeneratorExp)):
            return self._comprehension(e)
        if isinstance(e, ast.Starred):
            return self.eval(e.value)
        if isinstance(e, ast.IfExp):
            return Top('conditional expression')
        return Top(f"expression {type(e).__name__}")

    def _const_iter(self, e: ast.AST):
        """Elements of an iterable of literals (itertools.product of literal lists included)."""
        if isinstance(e, (ast.List, ast.Tuple)):
            try:
                return [ast.literal_eval(x) for x in e.elts]
            except Exception:
                return None
        if isinstance(e, ast.Call) and isinstance(e.func, ast.Name) and e.func.id in ('tuple', 'list') and len(e.args) == 1 and not e.keywords:
            return self._const_iter(e.args[0])
        if isinstance(e, ast.Call) and (self.qualify(e.func) or '').endswith('itertools.product') and all(k.arg == 'repeat' for k in e.keywords):
            parts = [self._const_iter(a) for a in e.args]
            if any(p is None for p in parts):
                return None
            repeat = const_value(e.keywords[0].value, None) if e.keywords else 1
            if not isinstance(repeat, int) or isinstance(repeat, bool) or not 1 <= repeat <= 4:
                return None
            return list(itertools.product(*parts, repeat=repeat))
        if isinstance(e, ast.Call) and dotted(e.func) == 'range' and all(isinstance(const_value(a, None), int) for a in e.args):
            return list(range(*[const_value(a) for a in e.args]))
        if isinstance(e, ast.Name):
            v = self.env.get(e.id)
            if isinstance(v, list):
                return v
        return None

    def _comprehension(self, e):
        if len(e.generators) != 1 or e.generators[0].ifs:
            return Top('comprehension with several generators or a filter')
        g = e.generators[0]
        items = self._const_iter(g.iter)
        if items is None:
            return Top(f"comprehension over a non literal iterable `{norm_text(g.iter)[:50]}`")
        out = []
        saved = dict(self.env)
        for item in items:
            self._bind_const(g.target, item)
            out.append(self.eval(e.elt))
        self.env = saved
        return ('tuple', out)

    def _bind_const(self, target, value) -> None:
        if isinstance(target, ast.Name):
            self.env[target.id] = value
        elif isinstance(target, (ast.Tuple, ast.List)) and isinstance(value, (tuple, list)) and len(value) == len(target.elts):
            for t, v in zip(target.elts, value):
                self._bind_const(t, v)

    def _as_int(self, e: ast.AST):
        v = self.eval(e)
        if isinstance(v, bool):
            return None
        if isinstance(v, int):
            return v
        return None

    def _subscript(self, e: ast.Subscript):
        base = self.eval(e.value)
        if isinstance(base, tuple) and base and base[0] == 'tuple':
            k = self._as_int(e.slice)
            if k is not None and -len(base[1]) <= k < len(base[1]):
                return base[1][k]
            return Top('tuple subscript')
        if isinstance(base, DataArrayVal):
            base = base.data
        if not isinstance(base, Arr):
            if isinstance(base, Top):
                return base
            return self.source_of(e, self)
        sl = e.slice
        parts = sl.elts if isinstance(sl, ast.Tuple) else [sl]
        items = []
        for p in parts:
            if isinstance(p, ast.Slice):
                if p.step is not None and const_value(p.step, None) not in (None, 1):
                    return Top(f"slice with step {norm_text(p.step)}")
                lo = self._as_int(p.lower) if p.lower is not None else None
                hi = self._as_int(p.upper) if p.upper is not None else None
                if (p.lower is not None and lo is None) or (p.upper is not None and hi is None):
                    return Top('non constant slice bound')
                items.append(('all',) if lo is None and hi is None else ('slice', lo, hi))
            elif (isinstance(p, ast.Constant) and p.value is None) or norm_text(p) in ('numpy.newaxis', 'np.newaxis'):
                items.append(('new',))
            elif isinstance(p, (ast.List, ast.Tuple)) and p.elts and all(self._as_int(x) is not None for x in p.elts):
                # one list of constant positions among full slices: a take along that axis
                others = [q_ for q_ in parts if q_ is not p]
                if all(isinstance(q_, ast.Slice) and q_.lower is None and q_.upper is None and q_.step is None for q_ in others):
                    return op_take(base, [self._as_int(x) for x in p.elts], parts.index(p))
                return Top('list index mixed with other indices')
            elif isinstance(p, ast.Constant) and p.value is Ellipsis:
                return Top('ellipsis index')
            else:
                k = self._as_int(p)
                if k is None:
                    v = self.eval(p)
                    if isinstance(v, Arr):
                        # boolean / fancy index: shape unknown
                        return Top('array valued index')
                    return Top(f"index `{norm_text(p)}`")
                items.append(('int', k))
        return op_index(base, items)

    def _shape_arg(self, e: ast.AST):
        v = self.eval(e)
        if isinstance(v, tuple) and v and v[0] == 'tuple':
            out = []
            for x in v[1]:
                if isinstance(x, Lin):
                    out.append(x)
                elif isinstance(x, int) and not isinstance(x, bool):
                    out.append(const(x) if x >= 0 else x)
                else:
                    return None
            return out
        if isinstance(v, Lin):
            return [v]
        if isinstance(v, int) and not isinstance(v, bool):
            return [const(v) if v >= 0 else v]
        return None

    def _arr_list(self, e: ast.AST):
        v = self.eval(e)
        if isinstance(v, tuple) and v and v[0] == 'tuple':
            return v[1]
        return None

    def _call(self, e: ast.Call):
        q = self.qualify(e.func) or ''
        f = e.func
        kw = {k.arg: k.value for k in e.keywords if k.arg}
        # ---- methods on arrays
        if isinstance(f, ast.Attribute) and not q.startswith(('numpy.', 'itertools.', 'xarray.', 'shapely.', 'emsarray.')):
            m = f.attr
            if m in ('reshape', 'flatten', 'ravel', 'transpose', 'copy', 'astype', 'any', 'all', 'squeeze', 'view', 'filled', 'tolist'):
                recv = self.eval(f.value)
                if isinstance(recv, DataArrayVal):
                    recv = recv.data
                if isinstance(recv, Arr):
                    if m == 'reshape':
                        shape = self._shape_arg(e.args[0]) if len(e.args) == 1 else self._shape_arg(ast.Tuple(elts=list(e.args), ctx=ast.Load()))
                        if shape is None:
                            return Top(f"reshape to a non static shape `{norm_text(e)[:60]}`")
                        order = const_value(kw['order'], '?') if 'order' in kw else 'C'
                        return op_reshape(recv, shape, order)
                    if m in ('flatten', 'ravel'):
                        order = const_value(kw['order'], '?') if 'order' in kw else (const_value(e.args[0], '?') if e.args else 'C')
                        return op_reshape(recv, [-1], order)
                    if m == 'transpose':
                        if not e.args:
                            return op_transpose(recv, None)
                        names = [norm_text(a) for a in e.args]
                        if self.env.get('__axis_names__') is not None and names == list(self.env['__axis_names__']):
                            # DataArray.transpose(<dimension names>): the result is in that order whatever the stored order was;
                            # the seeded value already stands for the array in that (canonical) order
                            self.named_transposes = getattr(self, 'named_transposes', []) + [e]
                            return recv
                        perm = self._shape_arg(e.args[0]) if len(e.args) == 1 else self._shape_arg(ast.Tuple(elts=list(e.args), ctx=ast.Load()))
                        if perm is None:
                            return Top('transpose with a non static permutation')
                        return op_transpose(recv, [int(p.const) if isinstance(p, Lin) else p for p in perm])
                    if m in ('copy', 'astype', 'view', 'filled'):
                        return recv
                    if m in ('any', 'all'):
                        ax = kw.get('axis') or (e.args[0] if e.args else None)
                        k = self._as_int(ax) if ax is not None else None
                        if k is None:
                            return Top('reduction over all axes')
                        k = _norm_axis(k, recv.ndim)
                        axes = [a for i, a in enumerate(recv.axes) if i != k]
                        return Arr(axes, Op(m, (recv.body,)))
                elif isinstance(recv, Top):
                    return recv
        short = q.rsplit('.', 1)[-1]
        is_np = q.startswith('numpy.')
        if short == 'cast' and len(e.args) == 2:
            return self.eval(e.args[1])
        if is_np and short == 'stack':
            arrs = self._arr_list(e.args[0]) if e.args else None
            if arrs is None:
                return Top('stack of a non literal sequence')
            ax = kw.get('axis') or (e.args[1] if len(e.args) > 1 else None)
            k = self._as_int(ax) if ax is not None else 0
            if k is None:
                return Top('stack with a non constant axis')
            return op_stack(arrs, k)
        if is_np and short == 'column_stack':
            arrs = self._arr_list(e.args[0]) if e.args else None
            if arrs is None:
                return Top('column_stack of a non literal sequence')
            arrs = [a.data if isinstance(a, DataArrayVal) else a for a in arrs]
            if all(isinstance(a, Arr) and a.ndim == 1 for a in arrs):
                return op_stack(arrs, 1)
            return Top('column_stack of non 1-D arrays')
        if is_np and short == 'take' and len(e.args) >= 2:
            picks = e.args[1]
            ax = kw.get('axis') or (e.args[2] if len(e.args) > 2 else None)
            k = self._as_int(ax) if ax is not None else None
            if isinstance(picks, ast.Name):
                d_ = self.source_of.flow.single_def(picks) if hasattr(self.source_of, 'flow') else None
                if d_ is not None and d_.kind == 'assign' and isinstance(d_.value, (ast.List, ast.Tuple)):
                    picks = d_.value
            if k is None or not isinstance(picks, (ast.List, ast.Tuple)) or any(self._as_int(x) is None for x in picks.elts):
                return Top('take with non constant positions or axis')
            a = self.eval(e.args[0])
            a = a.data if isinstance(a, DataArrayVal) else a
            return op_take(a, [self._as_int(x) for x in picks.elts], k)
        if is_np and short in ('tile', 'repeat') and len(e.args) == 2 and not kw:
            a = self.eval(e.args[0])
            a = a.data if isinstance(a, DataArrayVal) else a
            reps = self._shape_arg(ast.Tuple(elts=[e.args[1]], ctx=ast.Load()))
            if not isinstance(a, Arr) or a.ndim != 1 or reps is None or not isinstance(reps[0], Lin):
                return Top(f"{short} of a non 1-D array or by a non static count")
            n, r = a.axes[0].size, reps[0]
            if short == 'tile':      # the whole array r times over: (r, n) flattened
                return op_reshape(op_broadcast_to(op_expand_dims(a, 0), [r, n]), [-1], 'C')
            return op_reshape(op_broadcast_to(op_expand_dims(a, 1), [n, r]), [-1], 'C')     # every element r times: (n, r) flattened
        if is_np and short == 'expand_dims':
            k = self._as_int(kw.get('axis') or e.args[1])
            return op_expand_dims(self.eval(e.args[0]), k) if k is not None else Top('expand_dims axis')
        if is_np and short == 'broadcast_to':
            shape = self._shape_arg(kw.get('shape') or e.args[1])
            if shape is None or any(not isinstance(s, Lin) for s in shape):
                return Top('broadcast_to a non static shape')
            return op_broadcast_to(self.eval(e.args[0]), shape)
        if is_np and short in ('transpose', 'swapaxes', 'moveaxis'):
            a = self.eval(e.args[0])
            if short == 'transpose':
                axes = kw.get('axes') or (e.args[1] if len(e.args) > 1 else None)
                if axes is None:
                    return op_transpose(a, None)
                perm = self._shape_arg(axes)
                if perm is None:
                    return Top('transpose with a non static permutation')
                return op_transpose(a, [int(p.const) if isinstance(p, Lin) else p for p in perm])
            if isinstance(a, Arr) and len(e.args) == 3:
                i, j = self._as_int(e.args[1]), self._as_int(e.args[2])
                if i is None or j is None:
                    return Top('swapaxes axes')
                perm = list(range(a.ndim))
                i, j = _norm_axis(i, a.ndim), _norm_axis(j, a.ndim)
                if short == 'swapaxes':
                    perm[i], perm[j] = perm[j], perm[i]
                else:
                    x = perm.pop(i)
                    perm.insert(j, x)
                return op_transpose(a, perm)
            return Top(short)
        if is_np and short == 'reshape':
            shape = self._shape_arg(e.args[1] if len(e.args) > 1 else kw.get('newshape') or kw.get('shape'))
            if shape is None:
                return Top('reshape to a non static shape')
            order = const_value(kw['order'], '?') if 'order' in kw else 'C'
            return op_reshape(self.eval(e.args[0]), shape, order)
        if is_np and short == 'ravel':
            order = const_value(kw['order'], '?') if 'order' in kw else 'C'
            return op_reshape(self.eval(e.args[0]), [-1], order)
        if is_np and short == 'meshgrid':
            idx = const_value(kw['indexing'], '?') if 'indexing' in kw else 'xy'
            if len(e.args) != 2:
                return Top('meshgrid arity')
            return op_meshgrid(self.eval(e.args[0]), self.eval(e.args[1]), idx)
        if is_np and short == 'pad':
            a = self.eval(e.args[0])
            w = self.eval(kw.get('pad_width') or e.args[1])
            widths = None
            if isinstance(a, Arr):
                if isinstance(w, int) and not isinstance(w, bool):
                    widths = [(w, w)] * a.ndim
                elif isinstance(w, (tuple, list)) and w and w[0] == 'tuple':
                    try:
                        items = [x[1] if isinstance(x, tuple) and x and x[0] == 'tuple' else x for x in w[1]]
                        widths = [tuple(int(v) for v in it) for it in items]
                    except Exception:
                        widths = None
                elif isinstance(w, (tuple, list)):
                    try:
                        widths = [tuple(int(v) for v in it) for it in w]
                    except Exception:
                        widths = None
            if widths is None:
                return Top(f"pad with a non static width `{norm_text(e)[:60]}`")
            return op_pad(a, widths)
        if is_np and short in ('nanmean', 'mean', 'nansum', 'sum', 'nanmin', 'nanmax', 'min', 'max'):
            ax = kw.get('axis') or (e.args[1] if len(e.args) > 1 else None)
            arrs = self._arr_list(e.args[0])
            if arrs is not None and ax is not None and self._as_int(ax) == 0:
                return op_elementwise(short, arrs)
            a = self.eval(e.args[0])
            if isinstance(a, Arr) and ax is not None and self._as_int(ax) is not None:
                k = _norm_axis(self._as_int(ax), a.ndim)
                return Arr([x for i, x in enumerate(a.axes) if i != k], Op(short, (a.body,)))
            return Top(short)
        if is_np and short in ('isnan', 'isfinite', 'abs', 'sqrt', 'asarray', 'array', 'ascontiguousarray', 'copy', 'negative', 'logical_not'):
            if short in ('asarray', 'array'):
                arrs = self._arr_list(e.args[0])
                if arrs is not None and all(isinstance(x, Arr) for x in arrs):
                    return op_stack(arrs, 0)
            a = self.eval(e.args[0])
            if short in ('asarray', 'array', 'ascontiguousarray', 'copy'):
                return a
            return op_elementwise(short, [a])
        if is_np and short in ('full', 'zeros', 'ones', 'empty'):
            shape = self._shape_arg(kw.get('shape') or e.args[0])
            if shape is None or any(not isinstance(s, Lin) for s in shape):
                return Top(f"{short} with a non static shape `{norm_text(e)[:60]}`")
            fill = kw.get('fill_value') or (e.args[1] if short == 'full' and len(e.args) > 1 else None)
            arr = Arr([Axis(fresh(), s) for s in shape], Const(const_value(fill, '?') if fill is not None else short))
            arr.note = 'fresh'
            return arr
        if is_np and short == 'concatenate':
            parts = self._arr_list(e.args[0]) if e.args else None
            ax = kw.get('axis') or (e.args[1] if len(e.args) > 1 else None)
            if parts is None or (ax is not None and self._as_int(ax) != 0):
                return Top('concatenate of a non literal sequence / along another axis')
            total = const(0)
            pieces = []
            for part, node in zip(parts, e.args[0].elts):
                if isinstance(part, Arr) and part.ndim == 1 and isinstance(part.axes[0].size, Lin):
                    total = total + part.axes[0].size
                    pieces.append(('array', part, node))
                elif isinstance(part, tuple) and part and part[0] == 'tuple':
                    total = total + const(len(part[1]))
                    pieces.append(('scalars', part[1], node))
                else:
                    return Top('concatenate of pieces of unknown length')
            name = f"concat@{e.lineno}"
            self.concats[name] = (e, pieces)
            return source(name, [total])
        if q.endswith('make_polygons_with_holes'):
            return Polygons(self.eval(e.args[0]) if e.args else Top('no points'), e)
        if q.endswith('xarray.DataArray') or q.endswith('.DataArray'):
            data = kw.get('data') or (e.args[0] if e.args else None)
            dims = kw.get('dims') or (e.args[2] if len(e.args) > 2 else None)
            dlist = None
            if dims is not None:
                d = dims
                if isinstance(d, ast.Name) and d.id in self.env and isinstance(self.env[d.id], tuple):
                    dlist = self.env[d.id][1]
                elif isinstance(d, (ast.List, ast.Tuple)):
                    dlist = list(d.elts)
                else:
                    dlist = [d]
            return DataArrayVal(self.eval(data) if data is not None else None, dlist, e)
        return self.source_of(e, self)


_NOCONST = object()
