"""E1/E2/E3 - program model of /repo/src/emsarray built from the syntax tree only.

Nothing here imports emsarray.  Every module under src/emsarray is parsed with the
`ast` module of the interpreter that hosts the check; names are resolved through the
import table, classes through a linearised MRO, receivers through annotations.
"""
from __future__ import annotations

import ast
import os
from dataclasses import dataclass, field
from pathlib import Path
from typing import Iterable, Iterator, Optional


class AnalysisError(Exception):
    """The analysis cannot stand (anchor missing, unsupported construct at a rule site)."""


# --------------------------------------------------------------------------- helpers

def dotted(node: ast.AST) -> Optional[str]:
    """'a.b.c' for Name/Attribute chains, else None."""
    parts = []
    while isinstance(node, ast.Attribute):
        parts.append(node.attr)
        node = node.value
    if isinstance(node, ast.Name):
        parts.append(node.id)
        return '.'.join(reversed(parts))
    return None


def unparse(node: ast.AST) -> str:
    try:
        return ast.unparse(node)
    except Exception:  # pragma: no cover
        return ast.dump(node)


def norm_text(node: ast.AST) -> str:
    """Normalised statement/expression text used in finding keys (never line numbers)."""
    return ' '.join(unparse(node).split())


def const_value(node: ast.AST, default=None):
    if isinstance(node, ast.Constant):
        return node.value
    if isinstance(node, ast.UnaryOp) and isinstance(node.op, ast.USub) and isinstance(node.operand, ast.Constant):
        return -node.operand.value
    if isinstance(node, ast.UnaryOp) and isinstance(node.op, ast.UAdd) and isinstance(node.operand, ast.Constant):
        return +node.operand.value
    return default


def is_const(node: ast.AST) -> bool:
    return const_value(node, _MISSING) is not _MISSING


_MISSING = object()


def kwarg(call: ast.Call, name: str) -> Optional[ast.AST]:
    for kw in call.keywords:
        if kw.arg == name:
            return kw.value
    return None


def arg_or_kw(call: ast.Call, pos: int, name: str) -> Optional[ast.AST]:
    v = kwarg(call, name)
    if v is not None:
        return v
    if pos < len(call.args) and not any(isinstance(a, ast.Starred) for a in call.args[:pos + 1]):
        return call.args[pos]
    return None


def walk_no_nested(node: ast.AST, *, into_lambdas: bool = True) -> Iterator[ast.AST]:
    """ast.walk that does not descend into nested function or class definitions."""
    todo = [node]
    first = True
    while todo:
        n = todo.pop()
        if not first and isinstance(n, (ast.FunctionDef, ast.AsyncFunctionDef, ast.ClassDef)):
            continue
        if not first and not into_lambdas and isinstance(n, ast.Lambda):
            continue
        first = False
        yield n
        todo.extend(reversed(list(ast.iter_child_nodes(n))))


def docstring_free_body(body: list[ast.stmt]) -> list[ast.stmt]:
    if body and isinstance(body[0], ast.Expr) and isinstance(body[0].value, ast.Constant) \
            and isinstance(body[0].value.value, str):
        return body[1:]
    return body


# --------------------------------------------------------------------------- model

@dataclass
class FuncInfo:
    qualname: str
    name: str
    node: ast.FunctionDef
    module: 'Module'
    cls: Optional['ClassInfo']
    decorators: list[str]
    parent: Optional['FuncInfo'] = None   # enclosing function for nested defs

    @property
    def kind(self) -> str:
        for d in self.decorators:
            base = d.rsplit('.', 1)[-1]
            if base in ('property', 'cached_property'):
                return base
            if base in ('classmethod', 'staticmethod'):
                return base
        return 'method' if self.cls is not None else 'function'

    @property
    def is_property(self) -> bool:
        return self.kind in ('property', 'cached_property')

    @property
    def is_abstract(self) -> bool:
        return any(d.rsplit('.', 1)[-1] == 'abstractmethod' for d in self.decorators)

    @property
    def body(self) -> list[ast.stmt]:
        return docstring_free_body(self.node.body)

    @property
    def params(self) -> list[str]:
        a = self.node.args
        return [x.arg for x in a.posonlyargs + a.args + a.kwonlyargs]

    def where(self, node: Optional[ast.AST] = None) -> str:
        from .inline import real_line
        line = real_line(getattr(node, 'lineno', None) or self.node.lineno)
        return f"{self.module.relpath}:{line} ({self.short})"

    @property
    def short(self) -> str:
        q = self.qualname
        return q[len('emsarray.'):] if q.startswith('emsarray.') else q

    def returns(self) -> list[ast.Return]:
        return [n for n in walk_no_nested(self.node) if isinstance(n, ast.Return)]

    def calls(self) -> list[ast.Call]:
        out = []
        for st in self.body:
            out.extend(n for n in walk_no_nested(st) if isinstance(n, ast.Call))
        return out


@dataclass
class ClassInfo:
    qualname: str
    name: str
    node: ast.ClassDef
    module: 'Module'
    bases: list[str] = field(default_factory=list)       # resolved qualified names
    methods: dict[str, FuncInfo] = field(default_factory=dict)
    attrs: dict[str, ast.AST] = field(default_factory=dict)        # class level `x = value`
    annotations: dict[str, ast.AST] = field(default_factory=dict)  # class level `x: T`

    @property
    def short(self) -> str:
        q = self.qualname
        return q[len('emsarray.'):] if q.startswith('emsarray.') else q


@dataclass
class Module:
    name: str
    path: Path
    relpath: str
    tree: ast.Module
    source: str
    imports: dict[str, str] = field(default_factory=dict)   # local name -> qualified target
    functions: dict[str, FuncInfo] = field(default_factory=dict)
    classes: dict[str, ClassInfo] = field(default_factory=dict)
    assigns: dict[str, ast.AST] = field(default_factory=dict)      # module level constants
    is_package: bool = False

    def resolve(self, name: str) -> str:
        """Qualified name for a dotted local name, through the import table."""
        head, _, rest = name.partition('.')
        if head in self.imports:
            base = self.imports[head]
        elif head in self.functions or head in self.classes or head in self.assigns:
            base = f"{self.name}.{head}"
        else:
            base = head
        return f"{base}.{rest}" if rest else base


class Program:
    PACKAGE = 'emsarray'

    def __init__(self, repo: os.PathLike | str, normalise: bool = True):
        self.repo = Path(repo)
        self.normalise = normalise
        self.inlined: list[str] = []
        self.normal_forms: dict[str, int] = {}
        self.src = self.repo / 'src' / self.PACKAGE
        if not self.src.is_dir():
            raise AnalysisError(f"source tree {self.src} not found")
        self.modules: dict[str, Module] = {}
        self.functions: dict[str, FuncInfo] = {}
        self.classes: dict[str, ClassInfo] = {}
        self.parse_errors: list[str] = []
        self._load()
        self._link()
        self.private_renames: list[str] = []
        self._aliases: dict[str, str] = {}
        if normalise:
            self._recognise_private_renames()
        if normalise:
            from .inline import _logger_names, normalise_narrowing_asserts, normalise_sentinel_lookups, module_sentinels, normalise_variable_views, normalise_method_aliases, normalise_metadata_temps, normalise_annotated_assignments, normalise_library_spellings, normalise_sort_return, normalise_quantifier_loops, normalise_or_defaults, normalise_null_contexts, normalise_accumulate, normalise_isinstance_unions, normalise_comprehension_fusion, normalise_search_loops, normalise_try_lookups, normalise_display_loops, normalise_setdefault_statements, normalise_unused_enumerate, normalise_enumerated_dicts, normalise_get_locals, normalise_dims_copies, normalise_conditional_elements, normalise_local_generators, normalise_subset_quantifiers, normalise_next_or_raise, normalise_partials, normalise_getters, normalise_comprehension_negations, normalise_display_comprehensions, normalise_quantifier_polarity, normalise_expression_walrus, normalise_get_tests, normalise_starred_maps, normalise_self_aliases, normalise_for_else, normalise_numpy_idioms, normalise_self_conditional, normalise_walrus, normalise_match, normalise_dict_union, normalise_first_match, normalise_generator_functions, normalise_unzip_loops, normalise_accumulators, normalise_conditional_assignments, normalise_generator_arguments, normalise_ifexp, normalise_keys, normalise_suppress, strip_logging
            loggers = {m.name: _logger_names(m.tree, m.resolve) for m in self.modules.values()}
            for fi in self.functions.values():
                if fi.parent is None:
                    self._count('strip_logging', strip_logging(fi.node, loggers.get(fi.module.name, set())))
                    self._count('normalise_self_aliases', normalise_self_aliases(fi.node, set(fi.module.imports)))
                    self._count('normalise_self_aliases', normalise_self_aliases(fi.node, set(fi.module.imports)))      # (an alias of an alias: `c = self.convention; p = c.polygons`)
                    self._count('normalise_variable_views', normalise_variable_views(fi.node))
                    self._count('normalise_method_aliases', normalise_method_aliases(fi.node))
                    self._count('normalise_dims_copies', normalise_dims_copies(fi.node))
                    self._count('normalise_enumerated_dicts', normalise_enumerated_dicts(fi.node))
                    self._count('normalise_local_generators', normalise_local_generators(fi.node))
                    self._count('normalise_unused_enumerate', normalise_unused_enumerate(fi.node))
                    self._count('normalise_comprehension_fusion', normalise_comprehension_fusion(fi.node))
                    self._count('normalise_quantifier_loops', normalise_quantifier_loops(fi.node))
                    self._count('normalise_subset_quantifiers', normalise_subset_quantifiers(fi.node))
                    self._count('normalise_display_comprehensions', normalise_display_comprehensions(fi.node))
                    self._count('normalise_numpy_idioms', normalise_numpy_idioms(fi.node))
                    self._count('normalise_annotated_assignments', normalise_annotated_assignments(fi.node))
                    self._count('normalise_narrowing_asserts', normalise_narrowing_asserts(fi.node))
                    self._count('normalise_sentinel_lookups', normalise_sentinel_lookups(fi.node, module_sentinels(fi.module.tree)))
                    self._count('normalise_metadata_temps', normalise_metadata_temps(fi.node))
                    self._count('normalise_library_spellings', normalise_library_spellings(fi.node, fi.module.resolve))
                    self._count('normalise_setdefault_statements', normalise_setdefault_statements(fi.node))
                    self._count('normalise_getters', normalise_getters(fi.node, fi.module.resolve))
                    self._count('normalise_accumulate', normalise_accumulate(fi.node, fi.module.resolve))
                    self._count('normalise_partials', normalise_partials(fi.node, fi.module.resolve))
                    self._count('normalise_quantifier_polarity', normalise_quantifier_polarity(fi.node))
                    self._count('normalise_starred_maps', normalise_starred_maps(fi.node))
                    self._count('normalise_match', normalise_match(fi.node))
                    self._count('normalise_isinstance_unions', normalise_isinstance_unions(fi.node))
                    self._count('normalise_walrus', normalise_walrus(fi.node))
                    self._count('normalise_expression_walrus', normalise_expression_walrus(fi.node))
                    self._count('normalise_try_lookups', normalise_try_lookups(fi.node))
                    self._count('normalise_display_loops', normalise_display_loops(fi.node))
                    self._count('normalise_get_locals', normalise_get_locals(fi.node))
                    self._count('normalise_get_tests', normalise_get_tests(fi.node))
                    self._count('normalise_search_loops', normalise_search_loops(fi.node))
                    self._count('normalise_for_else', normalise_for_else(fi.node))
                    self._count('normalise_next_or_raise', normalise_next_or_raise(fi.node))
                    self._count('normalise_keys', normalise_keys(fi.node))
                    self._count('normalise_suppress', normalise_suppress(fi.node, fi.module.resolve))
                    self._count('normalise_null_contexts', normalise_null_contexts(fi.node, fi.module.resolve))
                    self._count('normalise_sort_return', normalise_sort_return(fi.node))
                    self._count('normalise_or_defaults', normalise_or_defaults(fi.node))
                    self._count('normalise_generator_functions', normalise_generator_functions(fi.node))
                    self._count('normalise_unzip_loops', normalise_unzip_loops(fi.node))
                    self._count('normalise_dict_union', normalise_dict_union(fi.node))
                    self._count('normalise_conditional_elements', normalise_conditional_elements(fi.node))
                    self._count('normalise_first_match', normalise_first_match(fi.node))
                    self._count('normalise_accumulators', normalise_accumulators(fi.node))
                    self._count('normalise_conditional_assignments', normalise_conditional_assignments(fi.node))
                    self._count('normalise_ifexp', normalise_ifexp(fi.node))
                    self._count('normalise_self_conditional', normalise_self_conditional(fi.node))
                    self._count('normalise_generator_arguments', normalise_generator_arguments(fi.node))
            from . import inline as _inline_mod
            _inline_mod.ENUM_CLASSES.clear()
            _inline_mod.ENUM_CLASSES.update(ci.name for ci in self.classes.values() if any(b.rsplit('.', 1)[-1] in ('Enum', 'IntEnum', 'StrEnum', 'Flag') for b in ci.bases))
            from .inline import Inliner, load_reference, normalise_loop_copies, normalise_duplicate_locals, normalise_projected_loops, normalise_result_temps, normalise_branch_results, normalise_parameter_temps, normalise_singleton_generators, normalise_optional_flags, record_classes_of, normalise_record_reads, normalise_record_fields, normalise_record_objects, normalise_attribute_loops, normalise_class_constants, normalise_enum_values, normalise_local_tables, normalise_record_classes, normalise_compiled_patterns, normalise_literal_loops, normalise_module_constants, normalise_small_quantifiers
            ref = load_reference()
            self._record_tables: dict[str, dict] = {}
            all_records: dict = {}
            if ref is not None:
                # the record classes the reviewed tree did not have, wherever in the package they are defined (a record made in one module may be
                # read in another that imports it)
                for m in self.modules.values():
                    self._record_tables[m.name] = record_classes_of(m.tree, m.name, ref)
                    all_records.update(self._record_tables[m.name])
            if ref is not None:
                for m in self.modules.values():
                    self._count('normalise_module_constants', normalise_module_constants(m.tree, m.name, [fi.node for fi in self.functions.values() if fi.module is m and fi.parent is None], ref))
                    for ci in self.classes.values():
                        if ci.module is m:
                            self._count('normalise_class_constants', normalise_class_constants(ci.node, ci.qualname, [f.node for f in ci.methods.values()], ref))
                    n_objects = normalise_record_objects(m.tree, m.name, [fi.node for fi in self.functions.values() if fi.module is m and fi.parent is None], ref)
                    self._count('normalise_record_objects', n_objects)
                    if n_objects:
                        # the methods became nested functions of the functions that used the object: index them
                        for fi in [f for f in self.functions.values() if f.module is m and f.parent is None]:
                            self._add_nested(m, fi)
                    self._count('normalise_record_reads', normalise_record_reads(m.tree, all_records))
                    self._count('normalise_record_classes', normalise_record_classes(m.tree, m.name, [fi.node for fi in self.functions.values() if fi.module is m and fi.parent is None], ref, all_records))
            for fi in self.functions.values():
                if fi.parent is None:
                    self._count('normalise_small_quantifiers', normalise_small_quantifiers(fi.node))
                    self._count('normalise_compiled_patterns', normalise_compiled_patterns(fi.node))
                    self._count('normalise_display_comprehensions', normalise_display_comprehensions(fi.node))
                    self._count('normalise_literal_loops', normalise_literal_loops(fi.node))
                    self._count('normalise_attribute_loops', normalise_attribute_loops(fi.node))
                    self._count('normalise_enum_values', normalise_enum_values(fi.node, lambda cls_, member_, _m=fi.module: self._enum_constant(_m, cls_, member_)))
                    self._count('normalise_local_tables', normalise_local_tables(fi.node))
            if ref is not None:
                inl = Inliner(self, ref)
                inl.run()
                self.inlined = inl.inlined
                for fi in self.functions.values():
                    if fi.parent is None:
                        self._count('normalise_record_fields', normalise_record_fields(fi.node, self._record_tables))
                        self._count('normalise_parameter_temps', normalise_parameter_temps(fi.node))
                        self._count('normalise_branch_results', normalise_branch_results(fi.node))
                        self._count('normalise_result_temps', normalise_result_temps(fi.node))
                        self._count('normalise_duplicate_locals', normalise_duplicate_locals(fi.node))
                        self._count('normalise_optional_flags', normalise_optional_flags(fi.node))
                        self._count('normalise_local_generators', normalise_local_generators(fi.node))
                        self._count('normalise_singleton_generators', normalise_singleton_generators(fi.node))
                        self._count('normalise_comprehension_fusion', normalise_comprehension_fusion(fi.node))
                        self._count('normalise_projected_loops', normalise_projected_loops(fi.node))
                        self._count('normalise_record_fields', normalise_record_fields(fi.node, self._record_tables))
                        self._count('normalise_loop_copies', normalise_loop_copies(fi.node, self))
            from .inline import normalise_unordered_consumers, normalise_unchanged_returns, normalise_comprehension_filters, normalise_conditional_returns, normalise_iteration, normalise_test_locals
            for fi in self.functions.values():
                if fi.parent is None:
                    self._count('normalise_unordered_consumers', normalise_unordered_consumers(fi.node))
                    self._count('normalise_iteration', normalise_iteration(fi.node))
                    self._count('normalise_comprehension_negations', normalise_comprehension_negations(fi.node))
                    self._count('normalise_comprehension_filters', normalise_comprehension_filters(fi.node))
                    self._count('normalise_test_locals', normalise_test_locals(fi.node))
                    self._count('normalise_conditional_returns', normalise_conditional_returns(fi.node))
                    self._count('normalise_unchanged_returns', normalise_unchanged_returns(fi.node))

    def _recognise_private_renames(self) -> None:
        """Private helpers that the reviewed tree knew under another name, or in another module, are read as the reviewed tree knew them
        (emsverif/renames.py): the new spelling is renamed back throughout the package and the program is indexed again."""
        from . import renames as _renames
        details = _renames.load_details()
        if details is None:
            return
        renamed, moved = _renames.detect(self, details)
        if renamed:
            _renames.apply_renames(self, renamed)
            for mod in self.modules.values():
                mod.imports.clear()
                mod.functions.clear()
                mod.classes.clear()
                mod.assigns.clear()
            self.functions.clear()
            self.classes.clear()
            for mod in self.modules.values():
                self._index_module(mod)
            self._link()
            self.private_renames += [f"{new} read as {old}" for new, old in sorted(renamed.items())]
        for old_q, new_q in sorted(moved.items()):
            self._aliases[old_q] = new_q
            self.private_renames.append(f"{old_q} found at {new_q}")
        self.private_renames += _renames.normalise_import_style(self, details.get('__imports__', {}))

    def _enum_constant(self, mod: 'Module', cls_name: str, member: str):
        """The constant an enumeration member is defined as (`left = 'left'`), None when the name is not an enumeration of the program."""
        ci = self.classes.get(self.canonical(mod.resolve(cls_name)))
        if ci is None or not any(b.rsplit('.', 1)[-1] in ('Enum', 'IntEnum', 'StrEnum', 'Flag') for b in ci.bases):
            return None
        v = ci.attrs.get(member)
        return v if isinstance(v, ast.Constant) else None

    def _count(self, name: str, n) -> None:
        if n:
            self.normal_forms[name] = self.normal_forms.get(name, 0) + int(n)

    # ---- loading
    def _load(self) -> None:
        for path in sorted(self.src.rglob('*.py')):
            rel = path.relative_to(self.src.parent)
            parts = list(rel.with_suffix('').parts)
            is_pkg = parts[-1] == '__init__'
            if is_pkg:
                parts = parts[:-1]
            name = '.'.join(parts)
            source = path.read_text()
            try:
                tree = ast.parse(source, filename=str(path))
            except SyntaxError as exc:
                raise AnalysisError(f"cannot parse {path}: {exc}")
            from .inline import scale_lines
            scale_lines(tree)
            mod = Module(name=name, path=path, relpath=str(path.relative_to(self.repo)),
                         tree=tree, source=source, is_package=is_pkg)
            self.modules[name] = mod
            self._index_module(mod)

    def _index_module(self, mod: Module) -> None:
        pkg = mod.name if mod.is_package else mod.name.rpartition('.')[0]

        def handle_import(st: ast.stmt) -> None:
            if isinstance(st, ast.Import):
                for a in st.names:
                    if a.asname:
                        mod.imports[a.asname] = a.name
                    else:
                        mod.imports[a.name.split('.')[0]] = a.name.split('.')[0]
            elif isinstance(st, ast.ImportFrom):
                base = st.module or ''
                if st.level:
                    up = pkg.split('.')
                    up = up[:len(up) - (st.level - 1)] if st.level > 1 else up
                    base = '.'.join(up + ([st.module] if st.module else []))
                for a in st.names:
                    mod.imports[a.asname or a.name] = f"{base}.{a.name}"

        def visit_block(stmts: Iterable[ast.stmt]) -> None:
            for st in stmts:
                if isinstance(st, (ast.Import, ast.ImportFrom)):
                    handle_import(st)
                elif isinstance(st, ast.FunctionDef):
                    self._add_function(mod, st, None, None)
                elif isinstance(st, ast.ClassDef):
                    self._add_class(mod, st)
                elif isinstance(st, ast.Assign):
                    for t in st.targets:
                        if isinstance(t, ast.Name):
                            mod.assigns[t.id] = st.value
                elif isinstance(st, ast.AnnAssign) and isinstance(st.target, ast.Name) and st.value is not None:
                    mod.assigns[st.target.id] = st.value
                elif isinstance(st, ast.If):
                    visit_block(st.body)
                    visit_block(st.orelse)
                elif isinstance(st, ast.Try):
                    visit_block(st.body)
                    for h in st.handlers:
                        visit_block(h.body)
                    visit_block(st.orelse)
        visit_block(mod.tree.body)

    def _decorators(self, mod: Module, node: ast.FunctionDef) -> list[str]:
        out = []
        for d in node.decorator_list:
            target = d.func if isinstance(d, ast.Call) else d
            name = dotted(target)
            out.append(mod.resolve(name) if name else unparse(target))
        return out

    def _add_function(self, mod: Module, node: ast.FunctionDef, cls: Optional[ClassInfo],
                      parent: Optional[FuncInfo]) -> FuncInfo:
        if parent is not None:
            qual = f"{parent.qualname}.<locals>.{node.name}"
        elif cls is not None:
            qual = f"{cls.qualname}.{node.name}"
        else:
            qual = f"{mod.name}.{node.name}"
        fi = FuncInfo(qualname=qual, name=node.name, node=node, module=mod, cls=cls,
                      decorators=self._decorators(mod, node), parent=parent)
        self.functions[qual] = fi
        if parent is None and cls is None:
            mod.functions[node.name] = fi
        self._add_nested(mod, fi)
        return fi

    def _add_nested(self, mod: Module, fi: FuncInfo) -> None:
        def scan(stmts: Iterable[ast.AST]) -> None:
            for st in stmts:
                if isinstance(st, ast.FunctionDef):
                    self._add_function(mod, st, fi.cls, fi)
                elif isinstance(st, ast.ClassDef):
                    continue
                else:
                    scan(ast.iter_child_nodes(st))
        scan(fi.node.body)

    def _add_class(self, mod: Module, node: ast.ClassDef) -> None:
        ci = ClassInfo(qualname=f"{mod.name}.{node.name}", name=node.name, node=node, module=mod)
        mod.classes[node.name] = ci
        self.classes[ci.qualname] = ci
        for st in node.body:
            if isinstance(st, ast.FunctionDef):
                fi = self._add_function(mod, st, ci, None)
                # a property setter etc. with the same name: keep the first (getter)
                ci.methods.setdefault(st.name, fi)
            elif isinstance(st, ast.Assign):
                for t in st.targets:
                    if isinstance(t, ast.Name):
                        ci.attrs[t.id] = st.value
            elif isinstance(st, ast.AnnAssign) and isinstance(st.target, ast.Name):
                ci.annotations[st.target.id] = st.annotation
                if st.value is not None:
                    ci.attrs[st.target.id] = st.value

    def _link(self) -> None:
        for ci in self.classes.values():
            for b in ci.node.bases:
                target = b.value if isinstance(b, ast.Subscript) else b
                name = dotted(target)
                if name:
                    ci.bases.append(self.canonical(ci.module.resolve(name)))

    # ---- queries
    def canonical(self, qual: str, _depth: int = 0) -> str:
        """Follow re-exports (`from ._base import Convention`) to the defining module."""
        if _depth > 8:
            return qual
        if qual in self.classes or qual in self.functions:
            return qual
        modname, _, attr = qual.rpartition('.')
        mod = self.modules.get(modname)
        if mod is not None and attr in mod.imports:
            return self.canonical(mod.imports[attr], _depth + 1)
        # attribute of something re-exported: a.b.C.method
        if modname and modname not in self.modules:
            base = self.canonical(modname, _depth + 1)
            if base != modname:
                return self.canonical(f"{base}.{attr}", _depth + 1)
        return qual

    def func(self, qualname: str) -> FuncInfo:
        q = self.canonical(qualname)
        if q in self.functions:
            return self.functions[q]
        if q in self._aliases and self._aliases[q] in self.functions:
            return self.functions[self._aliases[q]]       # a private helper that moved to another module
        # method looked up through the MRO
        clsname, _, meth = q.rpartition('.')
        clsname = self.canonical(clsname)
        if clsname in self.classes:
            fi = self.resolve_method(self.classes[clsname], meth)
            if fi is not None:
                return fi
        raise AnalysisError(f"anchor not found: {qualname}")

    def cls(self, qualname: str) -> ClassInfo:
        q = self.canonical(qualname)
        if q not in self.classes:
            raise AnalysisError(f"anchor class not found: {qualname}")
        return self.classes[q]

    def module(self, name: str) -> Module:
        if name not in self.modules:
            raise AnalysisError(f"anchor module not found: {name}")
        return self.modules[name]

    def mro(self, ci: ClassInfo) -> list[ClassInfo]:
        # The repository uses single inheritance between its own classes (plus
        # Generic/ABC/enum mixins from the standard library), so a depth first
        # left-to-right walk without duplicates equals the C3 order.
        out: list[ClassInfo] = []
        seen = set()

        def visit(c: ClassInfo) -> None:
            if c.qualname in seen:
                return
            seen.add(c.qualname)
            out.append(c)
            for b in c.bases:
                if b in self.classes:
                    visit(self.classes[b])
        visit(ci)
        return out

    def resolve_method(self, ci: ClassInfo, name: str) -> Optional[FuncInfo]:
        for c in self.mro(ci):
            if name in c.methods:
                return c.methods[name]
        return None

    def resolve_class_attr(self, ci: ClassInfo, name: str) -> Optional[tuple[ClassInfo, ast.AST]]:
        for c in self.mro(ci):
            if name in c.attrs:
                return c, c.attrs[name]
        return None

    def subclasses(self, ci: ClassInfo, *, strict: bool = False) -> list[ClassInfo]:
        out = []
        for c in self.classes.values():
            if c is ci and strict:
                continue
            if ci in self.mro(c):
                out.append(c)
        return out

    def is_subclass(self, ci: ClassInfo, base_qual: str) -> bool:
        base_qual = self.canonical(base_qual)
        return any(c.qualname == base_qual for c in self.mro(ci))

    def implementations(self, base: ClassInfo, name: str) -> list[FuncInfo]:
        """All concrete (non abstract) definitions of `name` in base and its subclasses."""
        out = []
        for c in self.subclasses(base):
            fi = c.methods.get(name)
            if fi is not None and not fi.is_abstract:
                out.append(fi)
        return sorted(out, key=lambda f: f.qualname)

    def concrete_classes(self, base: ClassInfo) -> list[ClassInfo]:
        """Subclasses with no abstract method left unimplemented."""
        out = []
        for c in self.subclasses(base):
            abstract = False
            resolved: dict[str, bool] = {}
            for k in self.mro(c):           # nearest definition wins
                for n, fi in k.methods.items():
                    resolved.setdefault(n, fi.is_abstract)
                for n in k.attrs:
                    resolved.setdefault(n, False)
            abstract = any(resolved.values())
            if not abstract:
                out.append(c)
        return sorted(out, key=lambda c: c.qualname)

    def callee(self, call: ast.Call, fi: FuncInfo, types: Optional['TypeEnv'] = None) -> Optional[str]:
        """Qualified name of the callee of `call` inside function `fi`, if resolvable."""
        return self.qualify(call.func, fi, types)

    def qualify(self, node: ast.AST, fi: FuncInfo, types: Optional['TypeEnv'] = None) -> Optional[str]:
        """Qualified name denoted by a Name/Attribute expression inside `fi`."""
        name = dotted(node)
        if name is None:
            # method on a typed receiver expression, e.g. dataset.ems.wind_index
            if isinstance(node, ast.Attribute) and types is not None:
                t = types.type_of(node.value)
                if t and t in self.classes:
                    m = self.resolve_method(self.classes[t], node.attr)
                    if m:
                        return m.qualname
                    return f"{t}.{node.attr}"
            return None
        head, _, rest = name.partition('.')
        # local nested function
        nested = f"{fi.qualname}.<locals>.{head}"
        if nested in self.functions and not rest:
            return nested
        if fi.parent is not None:
            nested = f"{fi.parent.qualname}.<locals>.{head}"
            if nested in self.functions and not rest:
                return nested
        if types is not None and isinstance(node, ast.Attribute):
            t = types.type_of(node.value)
            if t and t in self.classes:
                m = self.resolve_method(self.classes[t], node.attr)
                if m:
                    return m.qualname
                return f"{t}.{node.attr}"
        if head in ('self', 'cls') and fi.cls is not None and rest and '.' not in rest:
            m = self.resolve_method(fi.cls, rest)
            if m:
                return m.qualname
            return f"{fi.cls.qualname}.{rest}"
        return self.canonical(fi.module.resolve(name))

    def files(self) -> list[str]:
        return sorted(m.relpath for m in self.modules.values())


# --------------------------------------------------------------------------- receiver typing (E2)

class TypeEnv:
    """Annotation driven receiver typing inside one function.

    type_of(expr) returns the qualified name of an emsarray class, or one of the
    pseudo types 'xarray.Dataset', 'xarray.DataArray', or None when unknown.
    """

    def __init__(self, program: Program, fi: FuncInfo, self_class: Optional[ClassInfo] = None):
        self.p = program
        self.fi = fi
        self.self_class = self_class or fi.cls
        self.vars: dict[str, str] = {}
        self._seed()

    def _ann_type(self, ann: Optional[ast.AST], mod: Module, owner: Optional[ClassInfo] = None) -> Optional[str]:
        if ann is None:
            return None
        if isinstance(ann, ast.Constant) and isinstance(ann.value, str):
            try:
                ann = ast.parse(ann.value, mode='eval').body
            except SyntaxError:
                return None
        if isinstance(ann, ast.BinOp) and isinstance(ann.op, ast.BitOr):
            # Optional: take the non-None side
            for side in (ann.left, ann.right):
                if not (isinstance(side, ast.Constant) and side.value is None):
                    t = self._ann_type(side, mod, owner)
                    if t:
                        return t
            return None
        if isinstance(ann, ast.Subscript):
            base = dotted(ann.value)
            if base and base.rsplit('.', 1)[-1] in ('Optional',):
                return self._ann_type(ann.slice, mod, owner)
            return self._ann_type(ann.value, mod, owner)
        name = dotted(ann)
        if not name:
            return None
        q = self.p.canonical(mod.resolve(name))
        if q in self.p.classes:
            return q
        # TypeVar with a bound declared in the module
        tv = mod.assigns.get(name)
        if isinstance(tv, ast.Call) and dotted(tv.func) in ('TypeVar', 'typing.TypeVar'):
            # refine through `topology_class = X` style class attribute when possible
            if owner is not None:
                for attr, val in ((a, v) for c in self.p.mro(owner) for a, v in c.attrs.items()):
                    if attr.endswith('_class'):
                        n = dotted(val)
                        if n:
                            qq = self.p.canonical(self.p.mro(owner)[0].module.resolve(n))
                            if qq in self.p.classes:
                                return qq
            b = kwarg(tv, 'bound')
            if b is not None:
                return self._ann_type(b, mod, owner)
            return None
        if q in ('xarray.Dataset', 'xarray.DataArray', 'numpy.ndarray'):
            return q
        return q if '.' in q else None

    def _seed(self) -> None:
        node = self.fi.node
        args = node.args
        allargs = args.posonlyargs + args.args + args.kwonlyargs
        for i, a in enumerate(allargs):
            if i == 0 and self.fi.cls is not None and self.fi.kind != 'staticmethod' and self.fi.parent is None:
                if self.self_class is not None:
                    self.vars[a.arg] = self.self_class.qualname
                continue
            t = self._ann_type(a.annotation, self.fi.module)
            if t:
                self.vars[a.arg] = t
        if self.fi.parent is not None:
            parent_env = TypeEnv(self.p, self.fi.parent, self.self_class)
            for k, v in parent_env.vars.items():
                self.vars.setdefault(k, v)
        # simple forward pass over assignments (types are stable per name in this code base)
        for _ in range(2):
            for st in walk_no_nested(node):
                if isinstance(st, ast.Assign) and len(st.targets) == 1 and isinstance(st.targets[0], ast.Name):
                    t = self.type_of(st.value)
                    if t:
                        self.vars.setdefault(st.targets[0].id, t)
                elif isinstance(st, ast.AnnAssign) and isinstance(st.target, ast.Name):
                    t = self._ann_type(st.annotation, self.fi.module)
                    if t is None and st.value is not None:
                        t = self.type_of(st.value)
                    if t:
                        self.vars.setdefault(st.target.id, t)

    def type_of(self, expr: ast.AST) -> Optional[str]:
        if isinstance(expr, ast.Name):
            return self.vars.get(expr.id)
        if isinstance(expr, ast.Attribute):
            if expr.attr == 'ems':
                bt = self.type_of(expr.value)
                if bt in (None, 'xarray.Dataset') or True:
                    return self.p.canonical('emsarray.conventions._base.Convention')
            base = self.type_of(expr.value)
            if base and base in self.p.classes:
                ci = self.p.classes[base]
                m = self.p.resolve_method(ci, expr.attr)
                if m is not None and m.is_property:
                    return self._ann_type(m.node.returns, m.module, ci)
                for c in self.p.mro(ci):
                    if expr.attr in c.annotations:
                        return self._ann_type(c.annotations[expr.attr], c.module, ci)
            return None
        if isinstance(expr, ast.Call):
            fn = dotted(expr.func)
            if fn in ('cast', 'typing.cast') and len(expr.args) == 2:
                t = self._ann_type(expr.args[0], self.fi.module)
                return t or self.type_of(expr.args[1])
            q = self.p.qualify(expr.func, self.fi, self)
            if q and q in self.p.classes:
                return q
            if q and q in self.p.functions:
                f = self.p.functions[q]
                return self._ann_type(f.node.returns, f.module, f.cls)
            if fn in ('super',):
                return None
            return None
        return None
