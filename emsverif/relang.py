"""E8 - literal languages: constant folding of pattern strings and regex ASTs.

`const_str(module, expr)` folds module level string expressions (constants, f-strings
over other module constants, `sep.join([X] * n)`, concatenation) without running the
module.  `regex_ast(pattern)` parses the pattern with the standard library's own regex
parser (re._parser), giving the syntax tree the rules inspect.  No pattern is ever
matched against anything.
"""
from __future__ import annotations

import ast
from typing import Optional

try:  # Python >= 3.11
    import re._parser as sre_parse  # type: ignore
    import re._constants as sre_constants  # type: ignore
except ImportError:  # pragma: no cover
    import sre_constants  # type: ignore
    import sre_parse  # type: ignore

from .model import Module, const_value, dotted


def const_str(mod: Module, e: ast.AST, depth: int = 12):
    """Fold expr to a str / int / list of str, or None."""
    if depth <= 0 or e is None:
        return None
    if isinstance(e, ast.Constant):
        return e.value
    if isinstance(e, ast.Name):
        if e.id in mod.assigns:
            return const_str(mod, mod.assigns[e.id], depth - 1)
        return None
    if isinstance(e, ast.JoinedStr):
        out = ''
        for v in e.values:
            if isinstance(v, ast.Constant):
                out += v.value
            elif isinstance(v, ast.FormattedValue) and v.format_spec is None and v.conversion == -1:
                s = const_str(mod, v.value, depth - 1)
                if not isinstance(s, str):
                    return None
                out += s
            else:
                return None
        return out
    if isinstance(e, ast.List):
        vals = [const_str(mod, x, depth - 1) for x in e.elts]
        return None if any(v is None for v in vals) else vals
    if isinstance(e, ast.BinOp) and isinstance(e.op, ast.Mult):
        a, b = const_str(mod, e.left, depth - 1), const_str(mod, e.right, depth - 1)
        if isinstance(a, list) and isinstance(b, int):
            return a * b
        if isinstance(a, str) and isinstance(b, int):
            return a * b
        return None
    if isinstance(e, ast.BinOp) and isinstance(e.op, ast.Add):
        a, b = const_str(mod, e.left, depth - 1), const_str(mod, e.right, depth - 1)
        if isinstance(a, str) and isinstance(b, str):
            return a + b
        if isinstance(a, list) and isinstance(b, list):
            return a + b
        return None
    if isinstance(e, ast.Call) and isinstance(e.func, ast.Attribute) and e.func.attr == 'join' and len(e.args) == 1:
        sep = const_str(mod, e.func.value, depth - 1)
        items = const_str(mod, e.args[0], depth - 1)
        if isinstance(sep, str) and isinstance(items, list) and all(isinstance(i, str) for i in items):
            return sep.join(items)
        return None
    if isinstance(e, ast.Call) and (dotted(e.func) or '').endswith('re.compile') and e.args:
        return const_str(mod, e.args[0], depth - 1)
    return None


def compile_flags(e: ast.AST) -> Optional[str]:
    if isinstance(e, ast.Call) and (dotted(e.func) or '').endswith('re.compile'):
        if len(e.args) > 1:
            return ast.unparse(e.args[1])
        for k in e.keywords:
            if k.arg == 'flags':
                return ast.unparse(k.value)
        return ''
    return None


def regex_ast(pattern: str):
    return sre_parse.parse(pattern)


def top_level(pattern: str) -> list[tuple]:
    """[(opname, arg)] of the top level sequence."""
    return [(str(op), av) for op, av in regex_ast(pattern)]


def ends_anchored(pattern: str) -> bool:
    seq = list(regex_ast(pattern))
    if not seq:
        return False
    op, av = seq[-1]
    return op is sre_constants.AT and av in (sre_constants.AT_END_STRING, sre_constants.AT_END)


def starts_anchored(pattern: str) -> bool:
    seq = list(regex_ast(pattern))
    if not seq:
        return False
    op, av = seq[0]
    return op is sre_constants.AT and av in (sre_constants.AT_BEGINNING_STRING, sre_constants.AT_BEGINNING)


def group_count(pattern: str) -> int:
    return regex_ast(pattern).state.groups - 1


def describe_separators(pattern: str) -> list[str]:
    """Text of what lies between consecutive top level capture groups (literals and classes only)."""
    seq = list(regex_ast(pattern))
    seps: list[str] = []
    cur: Optional[list[str]] = None
    for op, av in seq:
        if op is sre_constants.SUBPATTERN and av[0] is not None:
            if cur is not None:
                seps.append(''.join(cur))
            cur = []
            continue
        if cur is None:
            continue
        if op is sre_constants.LITERAL:
            cur.append(chr(av))
        elif op in (sre_constants.MAX_REPEAT, sre_constants.MIN_REPEAT):
            lo, hi, sub = av
            inner = list(sub)
            if len(inner) == 1 and inner[0][0] is sre_constants.IN and inner[0][1] == [(sre_constants.CATEGORY, sre_constants.CATEGORY_SPACE)]:
                cur.append('\\s*' if lo == 0 else '\\s+')
            else:
                cur.append('<repeat>')
        elif op is sre_constants.AT:
            cur.append('<anchor>')
        else:
            cur.append(f"<{op}>")
    return seps


def trailing_after_last_group(pattern: str) -> list[str]:
    seq = list(regex_ast(pattern))
    out = []
    seen_group = False
    for op, av in seq:
        if op is sre_constants.SUBPATTERN and av[0] is not None:
            seen_group = True
            out = []
            continue
        if seen_group:
            out.append(str(op))
    return out
