"""Checker self-validation: scratch-copy variants of /repo with one instance broken.

A variant is a textual edit of one or more source files of the *current* tree, applied
to a throw-away copy of src/emsarray under a temporary directory (never under /repo
or /verif), analysed statically like the real tree, and deleted immediately.

  firing variant   expect = a rule id (or tuple of ids): the check must exit 1 and one of
                   the violated obligations must belong to that rule.
  benign variant   expect = None: the check must stay silent (exit 0).

A variant whose anchor text is not present exactly `count` times in the current tree
is reported as `skipped` (the tree has moved on); it is never a pass.
"""
from __future__ import annotations

import contextlib
import io
import os
import shutil
import tempfile
import time
from concurrent.futures import ProcessPoolExecutor
from dataclasses import dataclass, field
from pathlib import Path
from typing import Optional, Sequence


@dataclass
class Variant:
    prop: str
    name: str
    edits: Sequence[tuple[str, str, str]]        # (relative file, old text, new text)
    expect: object = None                        # rule id, tuple of rule ids, or None for benign
    note: str = ''
    also_ok: Sequence[str] = ()                  # other properties' rules are ignored anyway
    patch: Optional[str] = None                  # a unified diff to apply instead of textual edits (seeded changes)
    revert: Optional[str] = None                 # a `fix:` commit of the analysed repository to undo (fixed findings must come back as violations)


def V(prop: str, name: str, file: str, old: str, new: str, expect=None, note: str = '') -> Variant:
    return Variant(prop, name, [(file, old, new)], expect, note)


def VM(prop: str, name: str, edits, expect=None, note: str = '') -> Variant:
    return Variant(prop, name, list(edits), expect, note)


SEEDED = Path(__file__).resolve().parent.parent / 'seeded'


def seed_variants(prop: str) -> list[Variant]:
    """The seeded changes kept under /verif/seeded for this property: every seeded defect must make
    the property's check fire ('*': any rule), every behaviour-preserving refactoring must leave it silent."""
    out: list[Variant] = []
    if not SEEDED.is_dir():
        return out
    for d in sorted(SEEDED.iterdir()):
        if d.name.startswith(prop + '-') and (d / 'patch.diff').exists():
            out.append(Variant(prop, f"seed:{d.name}", [], '*', patch=str(d / 'patch.diff')))
    b = SEEDED / 'benign'
    if b.is_dir():
        for d in sorted(b.iterdir()):
            if d.name.startswith(prop + '-') and (d / 'patch.diff').exists():
                out.append(Variant(prop, f"refactoring:{d.name}", [], None, patch=str(d / 'patch.diff')))
    return out


#: commits that also introduced a helper that later fixes use: only the part that is the repair itself is undone
REVERT_ONLY = {'a62fac5': ['src/emsarray/conventions/_base.py']}


def revert_variants(prop: str) -> list[Variant]:
    """One variant per `fixed:` entry recorded under this property: the fix undone, the property's check must fire."""
    import json
    import re
    path = SEEDED.parent / 'known_findings.json'
    out: list[Variant] = []
    if not path.exists():
        return out
    for e in json.loads(path.read_text()).get('fixed', []):
        m = re.match(r"fixed: property=(C\d\d) ([0-9a-f]{7})", e)
        if m and m.group(1) == prop:
            out.append(Variant(prop, f"revert:{m.group(2)}", [], '*', revert=m.group(2)))
    return out


def collect(props: Optional[Sequence[str]] = None, seeds: bool = True) -> list[Variant]:
    import importlib
    out: list[Variant] = []
    from .__main__ import ALL
    for prop in (props or ALL):
        try:
            mod = importlib.import_module(f"emsverif.rules.{prop.lower()}")
        except ModuleNotFoundError:
            continue
        out.extend(getattr(mod, 'VARIANTS', []))
        if seeds:
            out.extend(seed_variants(prop))
            out.extend(revert_variants(prop))
    return out


def _apply(repo: Path, scratch: Path, variant: Variant) -> Optional[str]:
    """Copy src/emsarray and apply the edits. Returns a skip reason or None."""
    src = repo / 'src' / 'emsarray'
    dst = scratch / 'src' / 'emsarray'
    shutil.copytree(src, dst, ignore=shutil.ignore_patterns('__pycache__', '*.pyc'))
    if variant.revert:
        import subprocess
        paths = REVERT_ONLY.get(variant.revert, ['src'])
        d = subprocess.run(['git', '-C', str(repo), 'diff', variant.revert, f"{variant.revert}^", '--'] + paths, capture_output=True, text=True)
        if d.returncode != 0 or not d.stdout.strip():
            return f"commit {variant.revert} is not in the history of the analysed repository"
        r = subprocess.run(['git', 'apply', '-'], input=d.stdout, cwd=scratch, capture_output=True, text=True)
        if r.returncode != 0:
            return f"later commits changed the lines of {variant.revert}: it cannot be undone on its own (hand-written variants cover it)"
        return None
    if variant.patch:
        import subprocess
        r = subprocess.run(['git', 'apply', variant.patch], cwd=scratch, capture_output=True, text=True)
        if r.returncode != 0:
            r = subprocess.run(['patch', '-p1', '--fuzz=0', '-s', '-i', variant.patch], cwd=scratch, capture_output=True, text=True)
        if r.returncode != 0:
            return 'the seeded patch no longer applies to this tree'
        return None
    for rel, old, new in variant.edits:
        path = scratch / rel
        if not path.exists():
            return f"file {rel} missing"
        text = path.read_text()
        if text.count(old) != 1:
            return f"anchor text occurs {text.count(old)} times in {rel}"
        text = text.replace(old, new)
        try:
            compile(text, str(path), 'exec')
        except SyntaxError as exc:
            return f"variant does not compile: {exc}"
        path.write_text(text)
    return None


def run_variant(args) -> dict:
    repo, variant = args
    from .__main__ import run_property
    t0 = time.time()
    scratch = Path(tempfile.mkdtemp(prefix='emsverif-variant-'))
    try:
        skip = _apply(Path(repo), scratch, variant)
        if skip:
            return {'prop': variant.prop, 'name': variant.name, 'status': 'skipped', 'reason': skip,
                    'expect': variant.expect}
        buf = io.StringIO()
        with contextlib.redirect_stdout(buf):
            rc = run_property(variant.prop, str(scratch), 'quick', 0, write_evidence=False,
                              replay_dir=scratch / 'replay')
        out = buf.getvalue()
        violated = sorted({line.split()[1] for line in out.splitlines() if line.strip().startswith('VIOLATED ')})
        expect = variant.expect
        if expect is None:
            ok = rc == 0
        elif expect == '*':
            ok = rc == 1
        else:
            exp = (expect,) if isinstance(expect, str) else tuple(expect)
            ok = rc == 1 and any(r in violated for r in exp)
        return {'prop': variant.prop, 'name': variant.name, 'status': 'ok' if ok else 'FAILED',
                'rc': rc, 'violated_rules': violated, 'expect': variant.expect,
                'wall_s': round(time.time() - t0, 2),
                'output_tail': '' if ok else '\n'.join(out.splitlines()[-12:])}
    finally:
        shutil.rmtree(scratch, ignore_errors=True)


def run_variants(variants: Sequence[Variant], repo: str, jobs: int = 8) -> list[dict]:
    if not variants:
        return []
    jobs = max(1, min(jobs, len(variants)))
    args = [(repo, v) for v in variants]
    if jobs == 1:
        return [run_variant(a) for a in args]
    with ProcessPoolExecutor(max_workers=jobs) as ex:
        return list(ex.map(run_variant, args))


def summarise(results: Sequence[dict]) -> dict:
    firing = [r for r in results if r['expect'] is not None]
    benign = [r for r in results if r['expect'] is None]
    failed = [r for r in results if r['status'] == 'FAILED']
    skipped = [r for r in results if r['status'] == 'skipped']
    return {
        'selftest_variants': len(results),
        'selftest_firing_ok': sum(1 for r in firing if r['status'] == 'ok'),
        'selftest_firing_total': len(firing),
        'selftest_benign_ok': sum(1 for r in benign if r['status'] == 'ok'),
        'selftest_benign_total': len(benign),
        'selftest_skipped': [f"{r['prop']}:{r['name']} ({r.get('reason')})" for r in skipped],
        'selftest_failed': [f"{r['prop']}:{r['name']} rc={r.get('rc')} violated={r.get('violated_rules')} expect={r.get('expect')}" for r in failed],
        'selftest_results': [{k: v for k, v in r.items() if k != 'output_tail'} for r in results],
    }


def run_selftest(props, repo: str, jobs: int = 16, verbose: bool = False) -> int:
    variants = collect(props)
    t0 = time.time()
    results = run_variants(variants, repo, jobs)
    s = summarise(results)
    for r in results:
        if verbose or r['status'] != 'ok':
            print(f"  {r['status']:8s} {r['prop']}:{r['name']} expect={r['expect']} rc={r.get('rc')} "
                  f"violated={r.get('violated_rules')} {r.get('reason', '')}")
            if r['status'] == 'FAILED' and r.get('output_tail'):
                print('    ' + r['output_tail'].replace('\n', '\n    '))
    print(f"selftest: {len(results)} variants, firing {s['selftest_firing_ok']}/{s['selftest_firing_total']}, "
          f"benign {s['selftest_benign_ok']}/{s['selftest_benign_total']}, skipped {len(s['selftest_skipped'])}, "
          f"{time.time() - t0:.1f}s")
    return 2 if s['selftest_failed'] else 0
