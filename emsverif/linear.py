"""E7 - linear forms over named symbols.

An index expression such as `i + size * 2 + 1` or `-len(dimensions)` is normalised to
{symbol: coefficient, 1: constant}.  Symbols are the canonical forms (Flow.canon) of
maximal non-arithmetic sub-expressions, so `len(dimensions)` written twice is the
same symbol.  Products of two non-constant forms are not linear: the result is None.
"""
from __future__ import annotations

import ast
from fractions import Fraction
from typing import Optional

from .flow import Flow
from .model import const_value

ONE = 1  # key of the constant term


class Lin(dict):
    """symbol -> coefficient (Fraction); key ONE holds the constant."""

    def clean(self) -> 'Lin':
        return Lin({k: v for k, v in self.items() if v != 0})

    def __add__(self, other: 'Lin') -> 'Lin':
        out = Lin(self)
        for k, v in other.items():
            out[k] = out.get(k, 0) + v
        return out.clean()

    def __neg__(self) -> 'Lin':
        return Lin({k: -v for k, v in self.items()})

    def __sub__(self, other: 'Lin') -> 'Lin':
        return self + (-other)

    def scale(self, c) -> 'Lin':
        return Lin({k: v * c for k, v in self.items()}).clean()

    @property
    def is_const(self) -> bool:
        return all(k == ONE for k in self)

    @property
    def const(self):
        return self.get(ONE, 0)

    def symbols(self) -> list:
        return [k for k in self if k != ONE]

    def show(self) -> str:
        parts = []
        for k, v in sorted(self.items(), key=lambda kv: repr(kv[0])):
            if k == ONE:
                parts.append(str(v))
            else:
                name = k if isinstance(k, str) else _short(k)
                parts.append(f"{v}*{name}" if v != 1 else name)
        return ' + '.join(parts) if parts else '0'


def _short(c) -> str:
    s = repr(c)
    return s if len(s) < 60 else s[:57] + '...'


def const(c) -> Lin:
    return Lin({ONE: Fraction(c)}).clean()


def symbol(name) -> Lin:
    return Lin({name: Fraction(1)})


def linear(flow: Optional[Flow], expr: Optional[ast.AST], env: Optional[dict] = None) -> Optional[Lin]:
    """Linear form of expr; names found in env map to the given Lin (or symbol name)."""
    if expr is None:
        return None
    env = env or {}
    v = const_value(expr, None)
    if isinstance(v, (int,)) and not isinstance(v, bool):
        return const(v)
    if isinstance(expr, ast.Name) and expr.id in env:
        e = env[expr.id]
        return e if isinstance(e, Lin) else symbol(e)
    if isinstance(expr, ast.Name) and flow is not None:
        d = flow.single_def(expr)
        if d is not None and d.kind in ('assign', 'walrus') and d.value is not None:
            return linear(flow, d.value, env)
    if isinstance(expr, ast.UnaryOp) and isinstance(expr.op, ast.USub):
        inner = linear(flow, expr.operand, env)
        return None if inner is None else -inner
    if isinstance(expr, ast.UnaryOp) and isinstance(expr.op, ast.UAdd):
        return linear(flow, expr.operand, env)
    if isinstance(expr, ast.BinOp):
        a = linear(flow, expr.left, env)
        b = linear(flow, expr.right, env)
        if a is None or b is None:
            return None
        if isinstance(expr.op, ast.Add):
            return a + b
        if isinstance(expr.op, ast.Sub):
            return a - b
        if isinstance(expr.op, ast.Mult):
            if a.is_const:
                return b.scale(a.const)
            if b.is_const:
                return a.scale(b.const)
            return None
        return None
    if flow is not None:
        return symbol(flow.canon(expr))
    return symbol(ast.dump(expr))
