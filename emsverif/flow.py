"""E5 - value flow inside one function: reaching definitions and canonical values.

`Flow(fi)` walks the function body once, in order, with an environment
name -> list of definitions.  Branches are merged by union, loops are iterated to
a fixpoint (two passes suffice because the domain only grows).  For every
ast.Name that is *loaded* the reaching definitions are stored.

`canon(expr)` gives a hashable normal form of the value of an expression with
local aliases expanded; two expressions with the same canon denote the same value
(E5-same).  `expand(expr)` iterates every expression node that contributes to the
value, following local definitions.
"""
from __future__ import annotations

import ast
from dataclasses import dataclass
from typing import Callable, Iterator, Optional

from .model import FuncInfo, const_value, dotted, unparse, walk_no_nested


@dataclass(eq=False)
class Def:
    kind: str                      # param | assign | unpack | iter | with | aug | except | import | comp | walrus | del | func
    name: str
    value: Optional[ast.AST] = None    # defining expression (assign/unpack/iter/with/aug)
    index: Optional[tuple] = None      # position path for unpack / iter-unpack
    stmt: Optional[ast.AST] = None
    prev: Optional[list['Def']] = None  # for aug-assign: previous definitions

    def __repr__(self) -> str:  # pragma: no cover
        v = unparse(self.value) if self.value is not None else ''
        return f"<Def {self.kind} {self.name} {self.index or ''} {v[:40]}>"


Env = dict  # name -> list[Def]


def _merge(a: Env, b: Env) -> Env:
    out: Env = {}
    for k in set(a) | set(b):
        seen = []
        for d in a.get(k, []) + b.get(k, []):
            if d not in seen:
                seen.append(d)
        out[k] = seen
    return out


class Flow:
    def __init__(self, fi: FuncInfo, outer: Optional['Flow'] = None):
        self.fi = fi
        self.outer = outer
        self.uses: dict[int, list[Def]] = {}      # id(Name node) -> defs
        self.defs: list[Def] = []
        self.env_at: dict[int, Env] = {}          # id(stmt) -> env before stmt
        self.final_env: Env = {}
        self._name_nodes: dict[int, ast.Name] = {}
        env: Env = {}
        a = fi.node.args
        for arg in a.posonlyargs + a.args + a.kwonlyargs:
            env[arg.arg] = [self._mk('param', arg.arg, stmt=arg)]
        if a.vararg:
            env[a.vararg.arg] = [self._mk('param', a.vararg.arg, stmt=a.vararg)]
        if a.kwarg:
            env[a.kwarg.arg] = [self._mk('param', a.kwarg.arg, stmt=a.kwarg)]
        self.final_env = self._block(fi.node.body, env)

    # ------------------------------------------------------------ construction
    def _mk(self, kind: str, name: str, **kw) -> Def:
        d = Def(kind, name, **kw)
        self.defs.append(d)
        return d

    def _use_expr(self, expr: Optional[ast.AST], env: Env) -> None:
        if expr is None:
            return
        for n in self._walk_expr(expr, env):
            pass

    def _walk_expr(self, expr: ast.AST, env: Env) -> Iterator[ast.AST]:
        """Record uses in expr; comprehensions and lambdas get their own scope layer."""
        if isinstance(expr, ast.Name):
            if isinstance(expr.ctx, ast.Load):
                self.uses[id(expr)] = list(env.get(expr.id, []))
                self._name_nodes[id(expr)] = expr
            yield expr
            return
        if isinstance(expr, (ast.ListComp, ast.SetComp, ast.GeneratorExp, ast.DictComp)):
            inner = dict(env)
            for gen in expr.generators:
                yield from self._walk_expr(gen.iter, inner)
                self._bind_target(gen.target, gen.iter, 'iter', inner, stmt=gen)
                for cond in gen.ifs:
                    yield from self._walk_expr(cond, inner)
            if isinstance(expr, ast.DictComp):
                yield from self._walk_expr(expr.key, inner)
                yield from self._walk_expr(expr.value, inner)
            else:
                yield from self._walk_expr(expr.elt, inner)
            yield expr
            return
        if isinstance(expr, ast.Lambda):
            inner = dict(env)
            for arg in expr.args.args + expr.args.kwonlyargs:
                inner[arg.arg] = [self._mk('param', arg.arg, stmt=arg)]
            yield from self._walk_expr(expr.body, inner)
            yield expr
            return
        if isinstance(expr, ast.NamedExpr):
            yield from self._walk_expr(expr.value, env)
            env[expr.target.id] = [self._mk('walrus', expr.target.id, value=expr.value, stmt=expr)]
            yield expr
            return
        for child in ast.iter_child_nodes(expr):
            if isinstance(child, (ast.expr_context, ast.operator, ast.unaryop, ast.boolop, ast.cmpop)):
                continue
            yield from self._walk_expr(child, env)
        yield expr

    def _bind_target(self, target: ast.AST, value: Optional[ast.AST], kind: str, env: Env,
                     stmt: Optional[ast.AST] = None, path: tuple = ()) -> None:
        if isinstance(target, ast.Name):
            k = kind
            if path and kind == 'assign':
                k = 'unpack'
            env[target.id] = [self._mk(k, target.id, value=value, index=path or None, stmt=stmt)]
        elif isinstance(target, (ast.Tuple, ast.List)):
            for i, elt in enumerate(target.elts):
                if isinstance(elt, ast.Starred):
                    self._bind_target(elt.value, value, kind, env, stmt, path + (('star', i),))
                else:
                    self._bind_target(elt, value, kind, env, stmt, path + (i,))
        elif isinstance(target, ast.Starred):
            self._bind_target(target.value, value, kind, env, stmt, path + (('star', 0),))
        else:
            # attribute / subscript store: uses inside the target
            self._use_expr(target, env)

    def _block(self, stmts: list[ast.stmt], env: Env) -> Env:
        for st in stmts:
            env = self._stmt(st, env)
        return env

    def _stmt(self, st: ast.stmt, env: Env) -> Env:
        self.env_at[id(st)] = dict(env)
        if isinstance(st, ast.Assign):
            self._use_expr(st.value, env)
            env = dict(env)
            for t in st.targets:
                self._bind_target(t, st.value, 'assign', env, stmt=st)
            return env
        if isinstance(st, ast.AnnAssign):
            self._use_expr(st.value, env)
            env = dict(env)
            if st.value is not None:
                self._bind_target(st.target, st.value, 'assign', env, stmt=st)
            return env
        if isinstance(st, ast.AugAssign):
            self._use_expr(st.value, env)
            env = dict(env)
            if isinstance(st.target, ast.Name):
                prev = list(env.get(st.target.id, []))
                # the target is also read
                fake = ast.Name(id=st.target.id, ctx=ast.Load())
                ast.copy_location(fake, st.target)
                self.uses[id(fake)] = prev
                env[st.target.id] = [self._mk('aug', st.target.id, value=st.value, stmt=st, prev=prev)]
            else:
                self._use_expr(st.target, env)
            return env
        if isinstance(st, (ast.Expr, ast.Return)):
            self._use_expr(st.value, env)
            return env
        if isinstance(st, ast.Raise):
            self._use_expr(st.exc, env)
            self._use_expr(st.cause, env)
            return env
        if isinstance(st, ast.Assert):
            self._use_expr(st.test, env)
            self._use_expr(st.msg, env)
            return env
        if isinstance(st, ast.Delete):
            env = dict(env)
            for t in st.targets:
                if isinstance(t, ast.Name):
                    env[t.id] = [self._mk('del', t.id, stmt=st)]
                else:
                    self._use_expr(t, env)
            return env
        if isinstance(st, ast.If):
            self._use_expr(st.test, env)
            e1 = self._block(st.body, dict(env))
            e2 = self._block(st.orelse, dict(env))
            t1, t2 = _terminates(st.body), _terminates(st.orelse)
            if t1 and not t2:
                return e2
            if t2 and not t1:
                return e1
            return _merge(e1, e2)
        if isinstance(st, (ast.For, ast.AsyncFor)):
            self._use_expr(st.iter, env)
            loop_env = dict(env)
            for _ in range(2):
                body_env = dict(loop_env)
                self._bind_target(st.target, st.iter, 'iter', body_env, stmt=st)
                body_env = self._block(st.body, body_env)
                loop_env = _merge(loop_env, body_env)
            out = self._block(st.orelse, dict(loop_env)) if st.orelse else loop_env
            return _merge(env, out) if not st.orelse else out
        if isinstance(st, ast.While):
            loop_env = dict(env)
            for _ in range(2):
                self._use_expr(st.test, loop_env)
                body_env = self._block(st.body, dict(loop_env))
                loop_env = _merge(loop_env, body_env)
            if st.orelse:
                loop_env = self._block(st.orelse, dict(loop_env))
            return loop_env
        if isinstance(st, (ast.With, ast.AsyncWith)):
            env = dict(env)
            for item in st.items:
                self._use_expr(item.context_expr, env)
                if item.optional_vars is not None:
                    self._bind_target(item.optional_vars, item.context_expr, 'with', env, stmt=st)
            return self._block(st.body, env)
        if isinstance(st, ast.Try):
            body_env = self._block(st.body, dict(env))
            # a handler may start from any point of the body
            mid = _merge(env, body_env)
            outs = []
            for h in st.handlers:
                henv = dict(mid)
                self._use_expr(h.type, henv)
                if h.name:
                    henv[h.name] = [self._mk('except', h.name, value=h.type, stmt=h)]
                henv = self._block(h.body, henv)
                if not _terminates(h.body):
                    outs.append(henv)
            else_env = self._block(st.orelse, dict(body_env)) if st.orelse else body_env
            if not _terminates(st.body + st.orelse):
                outs.append(else_env)
            result: Env = {}
            for o in outs:
                result = _merge(result, o) if result else dict(o)
            if not outs:
                result = else_env
            if st.finalbody:
                result = self._block(st.finalbody, result)
            return result
        if isinstance(st, (ast.FunctionDef, ast.AsyncFunctionDef)):
            env = dict(env)
            for d in st.decorator_list:
                self._use_expr(d, env)
            env[st.name] = [self._mk('func', st.name, value=st, stmt=st)]
            return env
        if isinstance(st, ast.ClassDef):
            env = dict(env)
            env[st.name] = [self._mk('func', st.name, value=st, stmt=st)]
            return env
        if isinstance(st, (ast.Import, ast.ImportFrom)):
            env = dict(env)
            for a in st.names:
                nm = (a.asname or a.name).split('.')[0]
                env[nm] = [self._mk('import', nm, stmt=st)]
            return env
        if isinstance(st, (ast.Global, ast.Nonlocal, ast.Pass, ast.Break, ast.Continue)):
            return env
        if hasattr(ast, 'Match') and isinstance(st, ast.Match):  # pragma: no cover
            self._use_expr(st.subject, env)
            out: Env = dict(env)
            for case in st.cases:
                out = _merge(out, self._block(case.body, dict(env)))
            return out
        # unknown statement kind: record uses conservatively
        for child in ast.iter_child_nodes(st):
            if isinstance(child, ast.expr):
                self._use_expr(child, env)
        return env

    # ------------------------------------------------------------ queries
    def defs_of(self, name_node: ast.Name) -> list[Def]:
        ds = self.uses.get(id(name_node))
        if ds is None and self.outer is not None:
            return self.outer.final_defs(name_node.id)
        if not ds and self.outer is not None and name_node.id not in self.final_env:
            return self.outer.final_defs(name_node.id)
        return ds or []

    def final_defs(self, name: str) -> list[Def]:
        ds = self.final_env.get(name)
        if ds:
            return ds
        if self.outer is not None:
            return self.outer.final_defs(name)
        return []

    def single_def(self, name_node: ast.Name) -> Optional[Def]:
        ds = self.defs_of(name_node)
        return ds[0] if len(ds) == 1 else None

    def resolve(self, expr: ast.AST, depth: int = 12) -> ast.AST:
        """Follow plain aliases (Name -> its unique `assign` definition's value) and peel typing casts."""
        while depth > 0:
            depth -= 1
            if isinstance(expr, ast.Name):
                d = self.single_def(expr)
                if d is None or d.kind not in ('assign', 'walrus') or d.value is None:
                    break
                expr = d.value
                continue
            if isinstance(expr, ast.Call) and len(expr.args) == 2 and not expr.keywords \
                    and (dotted(expr.func) or '').rsplit('.', 1)[-1] == 'cast':
                expr = expr.args[1]
                continue
            break
        return expr

    def canon(self, expr: ast.AST, depth: int = 40, _stack: Optional[set] = None):
        """Hashable normal form with local aliases expanded."""
        if _stack is None:
            _stack = set()
        c = lambda e: self.canon(e, depth - 1, _stack)  # noqa: E731
        if depth <= 0:
            return ('deep', unparse(expr))
        if isinstance(expr, ast.Name):
            ds = self.defs_of(expr)
            if not ds:
                return ('global', expr.id)
            if len(ds) == 1:
                d = ds[0]
                if id(d) in _stack:
                    return ('rec', d.name)
                _stack.add(id(d))
                try:
                    return self._canon_def(d, depth - 1, _stack)
                finally:
                    _stack.discard(id(d))
            # several reaching definitions: each alternative is expanded only when it is a
            # simple leaf form (so rules can match it); otherwise it is named by its
            # definition site.  Equal reaching definition sets give equal canons.
            forms = []
            for d in ds:
                forms.append(self._def_token(d))
            forms = sorted(set(forms), key=repr)
            return forms[0] if len(forms) == 1 else ('phi',) + tuple(forms)
        if isinstance(expr, ast.Constant):
            return ('const', repr(expr.value))
        if isinstance(expr, ast.Attribute):
            return ('attr', c(expr.value), expr.attr)
        if isinstance(expr, ast.Subscript):
            return ('sub', c(expr.value), c(expr.slice))
        if isinstance(expr, ast.Slice):
            return ('slice',) + tuple(c(x) if x is not None else None for x in (expr.lower, expr.upper, expr.step))
        if isinstance(expr, ast.Call):
            fn = dotted(expr.func)
            if fn in ('cast', 'typing.cast') and len(expr.args) == 2:
                return c(expr.args[1])
            kws = tuple(sorted(((k.arg or '**'), c(k.value)) for k in expr.keywords))
            return ('call', c(expr.func), tuple(c(a) for a in expr.args), kws)
        if isinstance(expr, (ast.Tuple, ast.List)):
            return ('seq', type(expr).__name__, tuple(c(e) for e in expr.elts))
        if isinstance(expr, ast.Starred):
            return ('star', c(expr.value))
        if isinstance(expr, ast.BinOp):
            return ('bin', type(expr.op).__name__, c(expr.left), c(expr.right))
        if isinstance(expr, ast.UnaryOp):
            v = const_value(expr, None)
            if v is not None:
                return ('const', repr(v))
            return ('un', type(expr.op).__name__, c(expr.operand))
        if isinstance(expr, ast.BoolOp):
            return ('bool', type(expr.op).__name__, tuple(c(v) for v in expr.values))
        if isinstance(expr, ast.Compare):
            return ('cmp', tuple(type(o).__name__ for o in expr.ops), c(expr.left), tuple(c(x) for x in expr.comparators))
        if isinstance(expr, ast.IfExp):
            return ('ifexp', c(expr.test), c(expr.body), c(expr.orelse))
        if isinstance(expr, ast.JoinedStr):
            return ('fstr', tuple(c(v) for v in expr.values))
        if isinstance(expr, ast.FormattedValue):
            return ('fmt', c(expr.value), expr.conversion, c(expr.format_spec) if expr.format_spec else None)
        if isinstance(expr, ast.Dict):
            return ('dict', tuple((c(k) if k is not None else None, c(v)) for k, v in zip(expr.keys, expr.values)))
        if isinstance(expr, ast.Set):
            return ('set', tuple(sorted((c(e) for e in expr.elts), key=repr)))
        if isinstance(expr, (ast.ListComp, ast.SetComp, ast.GeneratorExp)):
            gens = tuple((self._canon_target(g.target), c(g.iter), tuple(c(i) for i in g.ifs)) for g in expr.generators)
            return ('comp', type(expr).__name__, c(expr.elt), gens)
        if isinstance(expr, ast.DictComp):
            gens = tuple((self._canon_target(g.target), c(g.iter), tuple(c(i) for i in g.ifs)) for g in expr.generators)
            return ('dictcomp', c(expr.key), c(expr.value), gens)
        if isinstance(expr, ast.Lambda):
            return ('lambda', tuple(a.arg for a in expr.args.args), c(expr.body))
        if isinstance(expr, ast.NamedExpr):
            return c(expr.value)
        return ('ast', type(expr).__name__, unparse(expr))

    def _def_token(self, d: Def):
        cache = self.__dict__.setdefault('_token_cache', {})
        if id(d) in cache:
            return cache[id(d)]
        tok = None
        if d.kind == 'param':
            tok = ('param', d.name)
        elif d.kind in ('assign', 'walrus') and d.value is not None and self._simple(d.value, 4):
            tok = self.canon(d.value, 8, {id(d)})
        if tok is None:
            st = d.stmt
            tok = ('def', d.name, d.kind, getattr(st, 'lineno', 0), getattr(st, 'col_offset', 0), d.index)
        cache[id(d)] = tok
        return tok

    def _simple(self, e: ast.AST, depth: int) -> bool:
        """Leaf-like expression: constants, parameters, attribute/subscript chains over them."""
        if depth <= 0:
            return False
        if isinstance(e, ast.Constant):
            return True
        if isinstance(e, ast.Name):
            ds = self.defs_of(e)
            if not ds:
                return True
            if len(ds) != 1:
                return False
            d = ds[0]
            if d.kind == 'param':
                return True
            if d.kind in ('assign', 'walrus') and d.value is not None:
                return self._simple(d.value, depth - 1)
            return False
        if isinstance(e, ast.Attribute):
            return self._simple(e.value, depth)
        if isinstance(e, ast.Subscript):
            return self._simple(e.value, depth) and self._simple(e.slice, depth - 1)
        if isinstance(e, ast.UnaryOp):
            return self._simple(e.operand, depth)
        return False

    def _canon_target(self, t: ast.AST):
        if isinstance(t, ast.Name):
            return ('t', t.id)
        if isinstance(t, (ast.Tuple, ast.List)):
            return ('tt',) + tuple(self._canon_target(e) for e in t.elts)
        return ('t?', unparse(t))

    def _canon_def(self, d: Def, depth: int, stack: set):
        if d.kind == 'param':
            return ('param', d.name)
        if d.kind in ('assign', 'walrus') and d.value is not None:
            return self.canon(d.value, depth, stack)
        if d.kind == 'unpack' and d.value is not None:
            base = self.canon(d.value, depth, stack)
            # unpacking a literal tuple picks the element
            node = d.value
            if isinstance(node, (ast.Tuple, ast.List)) and d.index and len(d.index) == 1 \
                    and isinstance(d.index[0], int) and d.index[0] < len(node.elts) \
                    and not any(isinstance(e, ast.Starred) for e in node.elts):
                return self.canon(node.elts[d.index[0]], depth, stack)
            return ('unpack', base, d.index)
        if d.kind == 'iter' and d.value is not None:
            return ('iter', self.canon(d.value, depth, stack), d.index, ('loop', id(d.stmt)))
        if d.kind == 'with' and d.value is not None:
            return ('with', self.canon(d.value, depth, stack))
        if d.kind == 'aug':
            prev = tuple(sorted((self._canon_def(p, depth - 1, stack) for p in (d.prev or []) if id(p) not in stack), key=repr))
            op = type(d.stmt.op).__name__ if isinstance(d.stmt, ast.AugAssign) else '?'
            return ('aug', op, prev, self.canon(d.value, depth, stack))
        if d.kind == 'func':
            return ('func', d.name)
        return (d.kind, d.name)

    def alternatives(self, expr: ast.AST) -> list:
        """Canonical forms of every reaching definition of a Name (expanded), or [canon(expr)]."""
        if isinstance(expr, ast.Name):
            ds = self.defs_of(expr)
            if ds:
                out = []
                for d in ds:
                    if d.kind == 'param':
                        out.append(('param', d.name))
                    elif d.kind in ('assign', 'walrus') and d.value is not None:
                        out.append(self.canon(d.value, 40, {id(d)}))
                    else:
                        out.append(self._def_token(d))
                return out
        return [self.canon(expr)]

    def same(self, a: ast.AST, b: ast.AST) -> bool:
        return self.canon(a) == self.canon(b)

    # ---- expansion of contributing expressions
    def expand(self, expr: ast.AST, *, follow_iter: bool = True, depth: int = 14,
               stop: Optional[Callable[[ast.AST], bool]] = None) -> Iterator[tuple[ast.AST, tuple]]:
        """Yield (node, path) for every expression node contributing to expr's value.

        `path` is the tuple of ancestor nodes (outermost first) through which the node
        reaches expr, with local definitions spliced in.  `stop(node)` prunes below node.
        """
        seen: set[int] = set()

        def go(e: ast.AST, path: tuple, d: int) -> Iterator[tuple[ast.AST, tuple]]:
            if e is None or d <= 0:
                return
            yield e, path
            if stop is not None and stop(e):
                return
            if isinstance(e, ast.Name):
                for df in self.defs_of(e):
                    if id(df) in seen:
                        continue
                    seen.add(id(df))
                    if df.kind in ('assign', 'unpack', 'walrus', 'with') and df.value is not None:
                        yield from go(df.value, path + (e,), d - 1)
                    elif df.kind == 'iter' and follow_iter and df.value is not None:
                        yield from go(df.value, path + (e,), d - 1)
                    elif df.kind == 'aug':
                        yield from go(df.value, path + (e,), d - 1)
                        for p in df.prev or []:
                            if id(p) not in seen and p.value is not None and p.kind != 'param':
                                seen.add(id(p))
                                yield from go(p.value, path + (e,), d - 1)
                return
            for child in ast.iter_child_nodes(e):
                if isinstance(child, (ast.expr_context, ast.operator, ast.unaryop, ast.boolop, ast.cmpop)):
                    continue
                yield from go(child, path + (e,), d)
        yield from go(expr, (), depth)

    def find_in(self, expr: ast.AST, pred: Callable[[ast.AST], bool], **kw) -> list[tuple[ast.AST, tuple]]:
        return [(n, p) for n, p in self.expand(expr, **kw) if pred(n)]

    def reaches(self, expr: ast.AST, pred: Callable[[ast.AST], bool], **kw) -> bool:
        return any(pred(n) for n, _ in self.expand(expr, **kw))


def _terminates(stmts: list[ast.stmt]) -> bool:
    """True when control cannot fall out of the end of this statement list."""
    for st in stmts:
        if isinstance(st, (ast.Return, ast.Raise, ast.Continue, ast.Break)):
            return True
        if isinstance(st, ast.If) and st.orelse and _terminates(st.body) and _terminates(st.orelse):
            return True
        if isinstance(st, (ast.With,)) and _terminates(st.body):
            return True
        if isinstance(st, ast.Try):
            body_t = _terminates(st.body + st.orelse)
            if st.finalbody and _terminates(st.finalbody):
                return True
            if body_t and all(_terminates(h.body) for h in st.handlers):
                return True
    return False


def call_name(call: ast.Call) -> Optional[str]:
    return dotted(call.func)


def attr_chain_root(node: ast.AST) -> Optional[ast.AST]:
    while isinstance(node, (ast.Attribute, ast.Subscript, ast.Call)):
        node = node.func if isinstance(node, ast.Call) else node.value
    return node


def stmts_in_order(fi: FuncInfo) -> list[ast.stmt]:
    out = []

    def rec(stmts):
        for st in stmts:
            out.append(st)
            for fld in ('body', 'orelse', 'finalbody'):
                sub = getattr(st, fld, None)
                if isinstance(sub, list) and sub and isinstance(sub[0], ast.stmt) and not isinstance(st, (ast.FunctionDef, ast.ClassDef)):
                    rec(sub)
            if isinstance(st, ast.Try):
                for h in st.handlers:
                    rec(h.body)
    rec(fi.body)
    return out
