"""Structural patterns with metavariables, used by the idiom-bound rules.

A pattern is Python source in which `$name` stands for a *local variable* of the function
under analysis (bound consistently on first use; two metavariables may denote the same local, as when a loop variable name is reused) and `$$name` for any
expression.  Everything else must match structurally; dotted names rooted at a module
(`numpy.sort`) are compared after resolving import aliases, so `import numpy as np`
changes nothing.  Matching is on the syntax tree: formatting, comments, parentheses and
line breaks never matter.

    m = Matcher(ctx, fi)
    st = m.stmt('$length = shapely.get_num_coordinates($polygons)')       # first matching statement or None
    m.stmt('$concave = numpy.flatnonzero($hull_length != $length)')       # $length is now bound
    m.name('length')                                                        # the actual local name
"""
from __future__ import annotations

import ast
import re
from typing import Iterable, Optional

from .model import FuncInfo, dotted, norm_text, walk_no_nested

MV = '__mv_'
MVE = '__mve_'


def _prep(src: str) -> str:
    src = re.sub(r'\$\$([A-Za-z_][A-Za-z0-9_]*)', MVE + r'\1', src)
    src = re.sub(r'\$([A-Za-z_][A-Za-z0-9_]*)', MV + r'\1', src)
    return src


def _is_gap(node) -> bool:
    return isinstance(node, ast.Expr) and isinstance(node.value, ast.Constant) and node.value.value is Ellipsis


def parse_stmt(src: str) -> ast.stmt:
    body = ast.parse(_prep(src).strip()).body
    if len(body) != 1:
        raise ValueError(f"pattern must be one statement: {src!r}")
    return body[0]


def parse_expr(src: str) -> ast.expr:
    return ast.parse(_prep(src).strip(), mode='eval').body


class Matcher:
    def __init__(self, ctx, fi: FuncInfo, bindings: Optional[dict] = None):
        self.ctx = ctx
        self.fi = fi
        self.bind: dict[str, str] = dict(bindings or {})      # metavar -> local name
        self.ebind: dict[str, str] = {}                         # expression metavar -> ast.dump
        self.enodes: dict[str, ast.AST] = {}
        self._depth = 0

    # positional / keyword spelling of the same call is one call
    SIGNATURES = {
        'numpy.repeat': ('a', 'repeats', 'axis'),
        'numpy.stack': ('arrays', 'axis'),
        'numpy.full': ('shape', 'fill_value', 'dtype'),
        'numpy.zeros': ('shape', 'dtype'),
        'numpy.sum': ('a', 'axis'),
        'numpy.any': ('a', 'axis'),
        'numpy.all': ('a', 'axis'),
        'numpy.append': ('arr', 'values', 'axis'),
        'numpy.fromiter': ('iter', 'dtype', 'count'),
        'numpy.pad': ('array', 'pad_width', 'mode'),
        'numpy.ma.masked_array': ('data', 'mask'),
    }

    def _signature(self, call: ast.Call):
        d = dotted(call.func)
        if d is None or any(part.startswith((MV, MVE)) for part in d.split('.')):
            return None
        head = d.split('.')[0]
        if head in self.fi.params or head in ('self', 'cls'):
            return None
        r = self.ctx.p.canonical(self.fi.module.resolve(d))
        if r in self.SIGNATURES:
            return r
        f = self.ctx.p.functions.get(r)
        if f is not None and f.cls is None and f.node.args.vararg is None and f.node.args.kwarg is None:
            # a module level function of the package: its own parameter list
            self.SIGNATURES = dict(self.SIGNATURES)
            self.SIGNATURES[r] = tuple(a.arg for a in f.node.args.args + f.node.args.kwonlyargs)
            return r
        return d if d in self.SIGNATURES else None

    def _by_name(self, call: ast.Call, sig: str):
        names = self.SIGNATURES[sig]
        if len(call.args) > len(names) or any(isinstance(a, ast.Starred) for a in call.args) or any(k.arg is None for k in call.keywords):
            return None
        out = {names[i]: a for i, a in enumerate(call.args)}
        for k in call.keywords:
            if k.arg in out:
                return None
            out[k.arg] = k.value
        return out

    # ---------------------------------------------------------------- core
    def _resolve(self, node: ast.AST) -> Optional[str]:
        d = dotted(node)
        if d is None:
            return None
        head = d.split('.')[0]
        if head in self.fi.params or head in ('self', 'cls'):
            return None
        return self.ctx.p.canonical(self.fi.module.resolve(d))

    def _m(self, pat, node, bind: dict, ebind: dict, enodes: dict) -> bool:
        # typing.cast(T, x) is x
        if isinstance(node, ast.Call) and len(node.args) == 2 and not node.keywords and dotted(node.func) in ('cast', 'typing.cast') \
                and not (isinstance(pat, ast.Call) and dotted(pat.func) in ('cast', 'typing.cast')):
            return self._m(pat, node.args[1], bind, ebind, enodes)
        if isinstance(pat, ast.Name) and pat.id.startswith(MVE):
            key = pat.id[len(MVE):]
            if not isinstance(node, ast.expr):
                return False
            dump = ast.dump(node)
            if key in ebind:
                return ebind[key] == dump
            ebind[key] = dump
            enodes[key] = node
            return True
        if isinstance(pat, ast.Name) and pat.id.startswith(MV):
            key = pat.id[len(MV):]
            if not isinstance(node, ast.Name):
                return False
            if key in bind:
                if bind[key] == node.id:
                    return True
                # a plain alias (`b = a`) of the bound local denotes the same value
                flow = self.ctx.flow(self.fi)
                cur = node
                for _ in range(8):
                    if not isinstance(cur, ast.Name):
                        return False
                    if cur.id == bind[key]:
                        return True
                    d = flow.single_def(cur)
                    if d is None or d.kind not in ('assign', 'walrus') or not isinstance(d.value, ast.Name):
                        return False
                    cur = d.value
                return False
            bind[key] = node.id
            return True
        # module-rooted dotted names: compare after alias resolution
        if isinstance(pat, (ast.Name, ast.Attribute)) and isinstance(node, (ast.Name, ast.Attribute)):
            dp, dn = dotted(pat), dotted(node)
            if dp is not None and dn is not None and not any(part.startswith((MV, MVE)) for part in dp.split('.')):
                if dp == dn:
                    return True
                rp, rn = self._resolve(pat), self._resolve(node)
                if rp is not None and rn is not None and rp == rn:
                    return True
                if isinstance(pat, ast.Name) or isinstance(node, ast.Name):
                    return False
        # an intermediate variable is transparent: a structured pattern is matched against the
        # definition of a local that has exactly one reaching plain assignment
        if isinstance(node, ast.Name) and isinstance(getattr(node, 'ctx', None), ast.Load) and isinstance(pat, ast.expr) \
                and not isinstance(pat, (ast.Name, ast.Constant)) and self._depth < 6:
            try:
                d = self.ctx.flow(self.fi).single_def(node)
            except Exception:
                d = None
            if d is not None and d.kind in ('assign', 'walrus') and d.value is not None and not isinstance(d.value, ast.Name):
                self._depth += 1
                try:
                    return self._m(pat, d.value, bind, ebind, enodes)
                finally:
                    self._depth -= 1
            return False
        if type(pat) is not type(node):
            return False
        if isinstance(pat, ast.Call):
            sp, sn = self._signature(pat), self._signature(node)
            if sp is not None and sp == sn:
                ap, an = self._by_name(pat, sp), self._by_name(node, sn)
                if ap is not None and an is not None:
                    if set(ap) != set(an) or not self._m(pat.func, node.func, bind, ebind, enodes):
                        return False
                    return all(self._m(ap[k], an[k], bind, ebind, enodes) for k in ap)
        if isinstance(pat, ast.arg):
            if pat.arg.startswith(MV):
                key = pat.arg[len(MV):]
                if key in bind:
                    return bind[key] == node.arg
                bind[key] = node.arg
                return True
            return pat.arg == node.arg
        if isinstance(pat, ast.Constant):
            return type(pat.value) is type(node.value) and pat.value == node.value
        for field, pv in ast.iter_fields(pat):
            if field in ('ctx', 'lineno', 'col_offset', 'end_lineno', 'end_col_offset', 'type_comment', 'kind'):
                continue
            nv = getattr(node, field, None)
            if field == 'value' and isinstance(pat, (ast.Assign, ast.AnnAssign, ast.AugAssign)) and isinstance(nv, ast.Name) \
                    and not isinstance(pv, ast.Name):
                return False        # `b = a` is an alias of a, not a second definition of a's value
            if isinstance(pv, list):
                if not isinstance(nv, list):
                    return False
                if any(_is_gap(a) for a in pv):
                    if not self._seq(pv, nv, bind, ebind, enodes):
                        return False
                    continue
                if len(pv) != len(nv):
                    return False
                for a, b in zip(pv, nv):
                    if isinstance(a, ast.AST):
                        if not self._m(a, b, bind, ebind, enodes):
                            return False
                    elif a != b:
                        return False
            elif isinstance(pv, ast.AST):
                if not isinstance(nv, ast.AST) or not self._m(pv, nv, bind, ebind, enodes):
                    return False
            elif field == 'annotation' or field == 'returns':
                continue
            else:
                if pv != nv:
                    # keyword `arg`, attribute `attr`, operators ...
                    return False
        return True

    def _seq(self, pats: list, nodes: list, bind: dict, ebind: dict, enodes: dict) -> bool:
        """Statement list matching where a bare `...` statement in the pattern matches any run of statements."""
        if not pats:
            return not nodes
        head = pats[0]
        if _is_gap(head):
            for k in range(len(nodes) + 1):
                b, e, en = dict(bind), dict(ebind), dict(enodes)
                if self._seq(pats[1:], nodes[k:], b, e, en):
                    bind.clear(); bind.update(b); ebind.clear(); ebind.update(e); enodes.clear(); enodes.update(en)
                    return True
            return False
        if not nodes:
            return False
        b, e, en = dict(bind), dict(ebind), dict(enodes)
        if self._m(head, nodes[0], b, e, en) and self._seq(pats[1:], nodes[1:], b, e, en):
            bind.clear(); bind.update(b); ebind.clear(); ebind.update(e); enodes.clear(); enodes.update(en)
            return True
        return False

    def match(self, pattern, node: ast.AST, *, commit: bool = True) -> bool:
        pat = pattern if isinstance(pattern, ast.AST) else (parse_stmt(pattern) if isinstance(node, ast.stmt) else parse_expr(pattern))
        # an annotated assignment in the code matches a plain assignment pattern
        if isinstance(pat, ast.Assign) and isinstance(node, ast.AnnAssign) and node.value is not None and len(pat.targets) == 1:
            node = ast.Assign(targets=[node.target], value=node.value)
        if isinstance(node, ast.Name) and not isinstance(pat, ast.Name):
            return False        # transparency of intermediates applies below the root only
        b, e, en = dict(self.bind), dict(self.ebind), dict(self.enodes)
        ok = self._m(pat, node, b, e, en)
        if ok and commit:
            self.bind, self.ebind, self.enodes = b, e, en
        return ok

    # ---------------------------------------------------------------- searching
    def statements(self, within: Optional[ast.AST] = None) -> list[ast.stmt]:
        root = within if within is not None else self.fi.node
        return [n for n in walk_no_nested(root) if isinstance(n, ast.stmt) and n is not root]

    def stmts(self, pattern: str, within: Optional[ast.AST] = None) -> list[ast.stmt]:
        pat = parse_stmt(pattern)
        return [st for st in self.statements(within) if self.match(pat, st, commit=False)]

    def stmt(self, pattern: str, within: Optional[ast.AST] = None) -> Optional[ast.stmt]:
        """The unique statement matching the pattern (binding its metavariables), else None."""
        hits = self.stmts(pattern, within)
        if len(hits) != 1:
            return None
        self.match(parse_stmt(pattern), hits[0], commit=True)
        return hits[0]

    def exprs(self, pattern: str, within: Optional[ast.AST] = None) -> list[ast.expr]:
        pat = parse_expr(pattern)
        root = within if within is not None else self.fi.node
        return [n for n in ast.walk(root) if isinstance(n, ast.expr) and self.match(pat, n, commit=False)]

    def expr(self, pattern: str, within: Optional[ast.AST] = None) -> Optional[ast.expr]:
        hits = self.exprs(pattern, within)
        if len(hits) != 1:
            return None
        self.match(parse_expr(pattern), hits[0], commit=True)
        return hits[0]

    def name(self, key: str) -> Optional[str]:
        return self.bind.get(key)

    def has(self, *patterns: str, within: Optional[ast.AST] = None) -> bool:
        """Every pattern matches exactly one statement (bindings accumulate in order)."""
        return all(self.stmt(p, within) is not None for p in patterns)

    def ordered(self, *patterns: str, within: Optional[ast.AST] = None) -> bool:
        """Every pattern matches exactly one statement and they appear in this source order."""
        found = []
        for p in patterns:
            st = self.stmt(p, within)
            if st is None:
                return False
            found.append(st)
        lines = [(s.lineno, s.col_offset) for s in found]
        return lines == sorted(lines)

    def explain(self, pattern: str) -> str:
        return norm_text(parse_stmt(pattern)).replace(MVE, '$$').replace(MV, '$')
