"""E3 - call / property graph with virtual dispatch on `self`.

An edge f -> g exists when f calls g, instantiates g's class (edge to __init__), or reads
a (cached) property g through a receiver whose class is known from annotations.
`self` (and `cls`) are typed as the concrete class under analysis, so inherited
methods dispatch to that class's overrides.
"""
from __future__ import annotations

import ast
from typing import Iterable, Optional

from .model import ClassInfo, FuncInfo, Program, TypeEnv, dotted, walk_no_nested


class CallGraph:
    def __init__(self, program: Program):
        self.p = program
        self._edges: dict[tuple[str, Optional[str]], list[tuple[FuncInfo, Optional[ClassInfo], ast.AST]]] = {}

    def _class_of_attr_value(self, ci: ClassInfo, attr: str) -> Optional[ClassInfo]:
        """`topology_class = CFGrid1DTopology` style class attribute naming a class."""
        hit = self.p.resolve_class_attr(ci, attr)
        if hit is None:
            return None
        owner, val = hit
        name = dotted(val)
        if not name:
            return None
        q = self.p.canonical(owner.module.resolve(name))
        return self.p.classes.get(q)

    def successors(self, fi: FuncInfo, self_class: Optional[ClassInfo] = None):
        """[(callee FuncInfo, its self class, site node)]"""
        key = (fi.qualname, self_class.qualname if self_class else None)
        if key in self._edges:
            return self._edges[key]
        p = self.p
        types = TypeEnv(p, fi, self_class or fi.cls)
        out: list[tuple[FuncInfo, Optional[ClassInfo], ast.AST]] = []
        me = self_class or fi.cls

        def add(target: Optional[FuncInfo], tcls: Optional[ClassInfo], site: ast.AST) -> None:
            if target is not None and not target.is_abstract:
                out.append((target, tcls, site))

        def ctor(ci: ClassInfo, site: ast.AST) -> None:
            for name in ('__init__', '__post_init__'):
                m = p.resolve_method(ci, name)
                if m is not None:
                    add(m, ci, site)

        for node in ast.walk(fi.node):
            if isinstance(node, ast.Call):
                f = node.func
                # cls.topology_class(...) / self.topology_class(...)
                if isinstance(f, ast.Attribute) and isinstance(f.value, ast.Name) and f.value.id in ('self', 'cls') and me is not None:
                    target_cls = self._class_of_attr_value(me, f.attr)
                    if target_cls is not None:
                        ctor(target_cls, node)
                        continue
                # super().method(...)
                if isinstance(f, ast.Attribute) and isinstance(f.value, ast.Call) and dotted(f.value.func) == 'super' and me is not None:
                    defining = fi.cls
                    mro = p.mro(me)
                    started = False
                    for c in mro:
                        if started and f.attr in c.methods:
                            add(c.methods[f.attr], me, node)
                            break
                        if defining is not None and c.qualname == defining.qualname:
                            started = True
                    continue
                q = p.qualify(f, fi, types)
                if q is None:
                    continue
                if q in p.classes:
                    ctor(p.classes[q], node)
                elif q in p.functions:
                    target = p.functions[q]
                    tcls = None
                    if isinstance(f, ast.Attribute):
                        t = types.type_of(f.value)
                        if isinstance(f.value, ast.Name) and f.value.id in ('self', 'cls') and me is not None:
                            t = me.qualname
                            m = p.resolve_method(me, f.attr)
                            if m is not None:
                                target = m
                        if t in p.classes:
                            tcls = p.classes[t]
                            m = p.resolve_method(tcls, f.attr)
                            if m is not None:
                                target = m
                    add(target, tcls or target.cls, node)
            elif isinstance(node, ast.Attribute) and isinstance(node.ctx, ast.Load):
                t = None
                if isinstance(node.value, ast.Name) and node.value.id in ('self', 'cls') and me is not None and fi.parent is None or \
                        (isinstance(node.value, ast.Name) and node.value.id == 'self' and me is not None):
                    t = me.qualname
                else:
                    t = types.type_of(node.value)
                if t and t in p.classes:
                    ci = p.classes[t]
                    m = p.resolve_method(ci, node.attr)
                    if m is not None and m.is_property:
                        add(m, ci, node)
        self._edges[key] = out
        return out

    def closure(self, roots: Iterable[tuple[FuncInfo, Optional[ClassInfo]]], *, limit: int = 400,
                stop=None) -> list[tuple[FuncInfo, Optional[ClassInfo]]]:
        seen: dict[tuple[str, Optional[str]], tuple[FuncInfo, Optional[ClassInfo]]] = {}
        todo = list(roots)
        while todo and len(seen) < limit:
            fi, sc = todo.pop()
            key = (fi.qualname, sc.qualname if sc else None)
            if key in seen:
                continue
            seen[key] = (fi, sc)
            if stop is not None and stop(fi):
                continue
            for tgt, tcls, _site in self.successors(fi, sc):
                todo.append((tgt, tcls))
        return list(seen.values())

    def callers_of(self, target_qual: str) -> list[tuple[FuncInfo, ast.AST]]:
        out = []
        for fi in self.p.functions.values():
            for tgt, _tcls, site in self.successors(fi, fi.cls):
                if tgt.qualname == target_qual:
                    out.append((fi, site))
        return out
